#!/bin/sh
# Offline set-up of the verification machinery (MANIFEST.setup_cmd).  Installs nothing from the
# network: Hypothesis into /venv if it is missing there, atheris + jsonschema into /verif/.deps.
set -e
cd "$(dirname "$0")"
W=/opt/veriftools/wheels
/venv/bin/python -c "import hypothesis" 2>/dev/null || /venv/bin/pip install -q --no-index --find-links $W hypothesis
mkdir -p .deps
PYTHONPATH=.deps /venv/bin/python -c "import atheris" 2>/dev/null || /venv/bin/pip install -q --no-index --find-links $W --target .deps atheris || echo "setup: atheris not installable (coverage-guided tier will be skipped)"
PYTHONPATH=.deps /venv/bin/python -c "import jsonschema" 2>/dev/null || /venv/bin/pip install -q --no-index --find-links $W --target .deps jsonschema || echo "setup: jsonschema not installable (evidence self-validation skipped)"
chmod +x vcheck tools/*.py 2>/dev/null || true
/venv/bin/python -c "import hypothesis; print('setup ok: hypothesis', hypothesis.__version__)"
