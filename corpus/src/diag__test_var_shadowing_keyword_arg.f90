module var_shadowing_keyword_arg
  character(len=6), parameter :: TEST = "4.10.4"
  character(len=6, kind=4), parameter :: TEST2 = "4.10.4"
  real(kind=8) :: a
end module var_shadowing_keyword_arg

program program_var_shadowing_keyword_arg
  use var_shadowing_keyword_arg
  integer :: len
  integer :: kind
end program program_var_shadowing_keyword_arg
