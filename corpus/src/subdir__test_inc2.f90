INTEGER :: val2
REAL :: cross

val1
