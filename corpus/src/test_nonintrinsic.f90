module test_nonint_mod
   private
   integer, parameter, public :: DP = kind(0.0D0)
end module test_nonint_mod

program nonint
   use, non_intrinsic :: test_nonint_mod, only : DP
   implicit none
   real(DP) :: x
   x = 0.0_DP
end program nonint
