module test_rename_intrinsic
    implicit none
    interface size
        module procedure size_comp
    end interface size
contains

    subroutine size_comp(val, ret)
        integer, intent(in) :: val(:)
        integer, intent(out) :: ret
        integer, dimension(5) :: fixed
        ret = maxval([size(val), size(fixed)])
    end subroutine size_comp

end module test_rename_intrinsic

program driver
    use test_rename_intrinsic
    implicit none
    integer, dimension(10) :: val
    integer, dimension(5) :: tmp
    integer :: sz
    call size(val, sz)  ! This is fortran_sub and should be renamed
    print*, size(val)   ! This is an intrinsic, should be skipped in renaming
end program driver
