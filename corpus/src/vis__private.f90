module visibility
    private :: name
    private :: generic_interf
    interface name
        module procedure :: name_sp
    end interface name
    interface
        subroutine generic_interf(noop)
            integer, intent(in) :: noop
        end subroutine generic_interf
    end interface
contains
    subroutine name_sp(val)
        real(4), intent(in) :: val
        print *, 'name_sp', val
    end subroutine name_sp
end module visibility
