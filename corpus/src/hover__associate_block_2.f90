program associate_block_2
  implicit none
  associate (hi => say_hi())
    if (hi) print *, 'Bye'
  end associate
contains
  logical function say_hi()
    say_hi = .true.
  end
end program
