subroutine parse_line_continuations
  call report_test("[adaptivity output]", .false., .false., "Congratulations! &
                   & The output from adaptivity might even be OK if you get this far.")
end subroutine parse_line_continuations
