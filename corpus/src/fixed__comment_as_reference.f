      program comment_as_reference
C     Comment with variable name gets picked as a ref: variable_to_reference
      real variable_to_reference
      variable_to_reference = 1
      end program comment_as_reference
