module mod
    implicit none
contains

    subroutine fi()
        contains
            subroutine phi()
                integer :: a(5)
                print*, size(a) ! this is an intrinsic
            end subroutine phi
    end subroutine fi
end module mod
