program test_imp
    implicit none

end program test_imp
implicit none
