program test_visibility
    use nonexisting_module  ! Info: missing module
    implicit none
    use mod
end program test_visibility
public
