module test_functions
    contains
    subroutine foo(val)
        integer, intent(in) :: bar
    end subroutine
end module test_functions
