module points
  type :: point
     real :: x, y
  end type point

  interface
     module function point_dist(a, b) result(distance)
       type(point), intent(in) :: a, b
       real :: distance
     end function point_dist

     module logical function is_point_equal_a(a, b)
      type(point), intent(in) :: a, b
    end function is_point_equal_a

    module subroutine is_point_equal_sub(a, b, test)
      type(point), intent(in) :: a, b
      logical, intent(out) :: test
    end subroutine is_point_equal_sub
  end interface
contains
  logical function is_point_equal(a, b)
    type(point), intent(in) :: a, b
    is_point_equal = merge(.true., .false., a%x == b%x .and. a%y == b%y)
  end function is_point_equal
end module points
#define __PARENT_MOD__ points
submodule (__PARENT_MOD__) points_a
contains
  module function point_dist(a, b)
    type(point), intent(in) :: a, b
    distance = sqrt((a%x - b%x)**2 + (a%y - b%y)**2)
  end function point_dist

  module procedure is_point_equal_a
    type(point) :: c
    is_point_equal_a = merge(.true., .false., a%x == b%x .and. a%y == b%y)
  end procedure is_point_equal_a

  module procedure is_point_equal_sub
    type(point) :: c
    test = is_point_equal(a,b)
  end procedure is_point_equal_sub
end submodule points_a
