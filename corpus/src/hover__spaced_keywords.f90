subroutine spaced_keywords(arg1,  arg2)
    real, dimension (:, :), intent (in) :: arg1
    real, dimension ( size(arg1, 1), maxval([size(arg1, 2), size(arg1, 1)]) ), intent (out) ::  arg2
end subroutine spaced_keywords
