program complicated_kind_spec
real(int(sin(0.5))+8+len("ab((c")-3) :: y
real(int(sin(0.5))+8+len("ab))c")-3) :: z
end program
