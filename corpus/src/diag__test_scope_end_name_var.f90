program scope_end_named_var
    implicit none
    integer :: end, endif
    if (.true.) then
        end = 10
    end if
end program scope_end_named_var
