module mymod
   implicit none
   private
   public mytype, mytype2
   integer, public :: int1, int2, int3, int4, int5
   type :: mytype
      integer :: comp
   end type mytype
   type :: mytype2
      integer :: comp
   end type mytype2
   interface
      subroutine sub()
         import int1
         import mytype, int2
         type(mytype) :: some
      end subroutine sub
   end interface
end module mymod
