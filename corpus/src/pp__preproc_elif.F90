subroutine preprocessor_elif(var, var3, var4, var5, var6)

! This file, as used in test_preproc, checks that
! 1. the steps after the preprocessor parsing has fully finished, are only
! using content from the parts within the preprocessor if-elif-else that
! should be used. To do this, it has some regular fortran code within the
! #if and #elif.
! 2. the #endif correctly concludes the if-elif, so any new #define statements
! that come after the #endif, are picked up during the preprocessor parsing.

#if 0
integer, intent(in) :: var
#elif 1
integer, intent(inout) :: var
var = 3
#else
integer, intent(out) :: var
var = 5
#endif

#define OTHERTYPE integer

OTHERTYPE :: var2

PRINT*, var

endsubroutine preprocessor_elif
