SUBROUTINE block_sub()
INTEGER :: res0,i,j,end_var
res0 = 0
add1 : BLOCK
  INTEGER :: res1
  res1 = res0 + 1
  BLOCK
    INTEGER :: res2,blockVar
    res2 = res1 + 1
    blockVar = res0 + 1
  END BLOCK
END BLOCK add1
!
outer: DO i=1,10
  DO j=1,i
    res0=res0+1
  END DO
END DO outer
!
IF(res0>10)THEN
  i=res0
END IF
!
ASSOCIATE( x=>1 )
  i=i+x
END ASSOCIATE
! Test variables/labels starting with "end"
end_var= 1
end_label: DO i=1,3
  end_var = end_var + i
END DO end_label
END SUBROUTINE block_sub
