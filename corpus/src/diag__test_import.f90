program test_diagnostic_import
    import some
end program test_diagnostic_import
