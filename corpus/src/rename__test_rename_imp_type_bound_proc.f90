module mod
    implicit none

    type :: t
    contains
        procedure :: foo
    end type t

contains

    subroutine foo(self)
        class(t), intent(in) :: self
        call self%foo()
    end subroutine foo
end module mod
