PROGRAM myprog
USE test_free, ONLY: scaled_vector
TYPE(scaled_vector) :: myvec
CALL myvec%set_scale(scale)
END PROGRAM myprog
