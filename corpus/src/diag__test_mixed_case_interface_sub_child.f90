module mixed_case_interface_sub_child
  implicit none

contains
  subroutine foo(Func)
    interface
      function Func()
      end function Func
    end interface
  end subroutine foo
end module mixed_case_interface_sub_child
