#if !defined (PETSCPCDEF_H)
#define PETSCPCDEF_H

#include "petscerror.h"

#define PC type(tPC)
#define PCType character*(80)
#define ewrite(priority, format) if (priority <= 3) write((priority), format)
#define ewrite2(priority, format) \
    if (priority <= 3) write((priority), format)
#define varVar \
        55
#endif
