module some_mod
  implicit none
  private
  public :: some_sub
  interface some_sub
    module procedure a_subroutine
    module procedure b_subroutine
  end interface
contains
  subroutine a_subroutine(x)
    integer, intent(in) :: x
    write(*,*) 'x = ', x
  end subroutine a_subroutine
  subroutine b_subroutine(x, y)
    integer, intent(in) :: x, y
    write(*,*) 'x = ', x
    write(*,*) 'y = ', y
  end subroutine b_subroutine
end module some_mod

program main
    use some_mod, only: some_sub
    implicit none
end program main
