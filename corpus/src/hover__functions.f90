! simple function
function fun1(arg)
    integer, intent(in) :: arg
    integer :: fun1
end function fun1

! function with type on definition, implied result
integer function fun2(arg)
    integer, intent(in) :: arg
end function fun2

! function with return
function fun3(arg) result(retval)
    integer, intent(in) :: arg
    integer :: retval
end function fun3

! function with type on definition and return
integer function fun4(arg) result(retval)
    integer, intent(in) :: arg
end function fun4

! function with type on definition, return and keywords
pure integer elemental function fun5(arg) result(retval)
    integer, intent(in) :: arg
end function fun5

! function with type on definition and return
function fun6(arg) result(retval)
    integer, intent(in) :: arg
    integer, dimension(10,10) :: retval
end function fun6

! functions with complex result type
pure function outer_product(x, y)
    real, dimension(:), intent(in) :: x, y
    real, dimension(size(x), size(y)) :: outer_product
    integer :: i, j
    forall (i=1:size(x))
        forall (j=1:size(y))
            outer_product(i, j) = x(i) * y(j)
        end forall
    end forall
end function outer_product

! functions with no result type, common in interfaces
function dlamch(CMACH)
    character :: CMACH
end function dlamch

! intrinsic functions like c_loc display a return type
function fun7() result(val)
    use, intrinsic :: iso_c_binding
    integer, dimension(1), target :: ar
    type(c_ptr) :: val
    val = c_loc(ar)
end function fun7

real function foobar(val1, &
                     val2) &
              result(val4)
integer, intent(in) :: val1, val2
end function foobar
