program test_lines
    implicit none
    character(len=123) :: val = "Lorem ipsum dolor sit amet, consectetur adipiscing elit. Nam sodales imperdiet dolor, sit amet venenatis magna dictum id."
    ! Lorem ipsum dolor sit amet, consectetur adipiscing elit. Nam sodales imperdiet dolor, sit amet venenatis magna dictum id.
end program test_lines
