module foo
   implicit none
   public :: length
   private
   integer :: len
   integer :: length
end module foo

program test_private
   use foo, only: length
   use test_vis_mod
   implicit none
   print*, some_var, length
end program test_private
