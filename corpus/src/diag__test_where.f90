program test_where
   implicit none
   ! Example variables
   real:: A(5),B(5),C(5)
   A = 0.0
   B = 1.0
   C = [0.0, 4.0, 5.0, 10.0, 0.0]

   ! Oneliner
   WHERE(B .GT. 0.0)  B = SUM(A, DIM=1)

   ! Simple where construct use
   where (C/=0)
      A=B/C
   elsewhere
      A=0.0
   end where

   ! Named where construct
   named: where (C/=0)
      A=B/C
   elsewhere
      A=0.0
   end where named
end program test_where
