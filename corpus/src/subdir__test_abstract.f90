MODULE test_abstract
ABSTRACT INTERFACE
  SUBROUTINE abs_interface(a,b)
  INTEGER(4), DIMENSION(3,6), INTENT(in) :: a
  REAL(8), INTENT(out) :: b(4)
  END SUBROUTINE abs_interface
END INTERFACE
PROCEDURE(abs_interface) :: test
END MODULE test_abstract
