program preprocessor

#include "petscpc.h"
#ifdef PETSCPCDEF_H
    integer, parameter :: var = 1000
    PCType :: tmp
    print*, 999, 3.14, "some", var, PETSC_ERR_MEM
    print*, PETSC_ERR_INT_OVERFLOW, varVar
    ewrite(1,*) 'Assemble EP P1 matrix and rhs sytem'
    ewrite2(1,*) 'Assemble EP P1 matrix and rhs sytem'
    print*, SUCCESS

#endif
end program preprocessor
