module test_int

   implicit none

   contains

   subroutine foo(f, arg2)
      interface
         function f(x)
            real, intent(in) :: x
            real :: f
         end function
      end interface
      integer, intent(in) :: arg2
      real :: y
      y = 1.
      print*, f(y)
   end subroutine foo

   function foo2(f, g, h) result(arg3)
      interface
         function f(x) result(z)
            real, intent(in) :: x
            real :: z
         end function
         function g(x) result(z)
            real, intent(in) :: x
            real :: z
         end function
      end interface
      interface
         function h(x) result(z)
            real, intent(in) :: x
            real :: z
         end function h
      end interface
      real :: y
      real :: arg3
      y = 1.
      arg3 = f(g(h(y)))
   end function foo2

end module test_int
