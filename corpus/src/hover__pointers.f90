program pointers
    INTEGER, POINTER :: val1
end program
