MODULE test_generic
TYPE :: test_gen_type
CONTAINS
  GENERIC :: my_gen => gen1,gen2
  GENERIC :: ASSIGNMENT(=) => assign1, assign2
  GENERIC :: OPERATOR(+) => plusop1, plusop2
  GENERIC, PRIVATE :: my_gen2 => gen3, gen4
END TYPE test_gen_type
CONTAINS
!
SUBROUTINE gen1(self,a,b)
CLASS(test_gen_type) :: self
REAL(8), INTENT(IN) :: a
REAL(8), INTENT(OUT) :: b
CALL self%
END SUBROUTINE gen1
!
SUBROUTINE gen2(self,a,b,c)
CLASS(test_gen_type) :: self
REAL(8), INTENT(IN) :: a,c
REAL(8), INTENT(OUT) :: b
END SUBROUTINE gen2
!
SUBROUTINE assign1(outvar,invar)
REAL(8) :: outvar
CLASS(test_gen_type) :: invar
END SUBROUTINE assign1
!
SUBROUTINE assign2(outvar,invar)
LOGICAL :: outvar
CLASS(test_gen_type) :: invar
END SUBROUTINE assign2
!
REAL(8) FUNCTION plusop1(var1,var2)
REAL(8) :: var1
CLASS(test_gen_type) :: var2
END FUNCTION plusop1
!
LOGICAL FUNCTION plusop2(var1,var2)
LOGICAL :: var1
CLASS(test_gen_type) :: var2
END FUNCTION plusop2
!
SUBROUTINE gen3(self,a,b)
CLASS(test_gen_type) :: self
REAL(8), INTENT(IN) :: a
REAL(8), INTENT(OUT) :: b
CALL self%
END SUBROUTINE gen3
!
SUBROUTINE gen4(self,a,b,c)
CLASS(test_gen_type) :: self
REAL(8), INTENT(IN) :: a,c
REAL(8), INTENT(OUT) :: b
END SUBROUTINE gen4
END MODULE test_generic
