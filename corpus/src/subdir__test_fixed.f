      double precision function myfun(n,xval)
      integer i,n
c     **********
      double precision xval
      integer ieq1(2), ieq2(2)
      double precision req(2)
      character*(LEN=200) bob
      character dave*(20)
      equivalence (req(1),ieq1(1))
      equivalence (req(2),ieq2(1))
c
      data req(1) /1.0000000d-16/
      data req(2) /1.0000000d-308/
c
      myfun = xval
      bob(1:20) = dave
      do 10 i = 1, n
   10    myfun = myfun + xval
      return
c
      end
c
      subroutine glob_sub(n,xval,yval)
      integer i,n
c     **********
      double complex xval,yval
c
      yval = xval
      do 20 i = 1, n
         yval = yval + xval
   20    continue
      return
c
      end
