module test_vis_mod

implicit none
private

type :: some_type
end type some_type
integer :: some_var
public some_var

contains
subroutine some_sub
end subroutine some_sub
end module test_vis_mod
