submodule( foo_module ) submodule1
   implicit none
   contains
   module procedure foo1
      WRITE(*,"(A)") "testing :: "// trim(a) // "::"// trim(b)
   end procedure foo1
end submodule submodule1
