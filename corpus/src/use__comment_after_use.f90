module dep_mod
    integer :: dep_variable
end module dep_mod

module user_mod
    use dep_mod, only: dep_variable ! disabling comment
end module user_mod
