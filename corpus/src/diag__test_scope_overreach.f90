module m
    interface
        module subroutine sub(arg)
            integer :: arg
        end subroutine
    end interface
end module m

submodule (m) n

    use, intrinsic :: iso_fortran_env, only: int8, int16, int32, int64
    implicit none

    integer, parameter :: sp = selected_real_kind(6)
    integer, parameter :: dp = selected_real_kind(15)

contains

    pure recursive module function foo_sp(x) result(fi)
        real(sp), intent(in) :: x
        real(sp) :: fi
    end function foo_sp

    pure recursive module function foo_dp(x) result(fi)
        real(dp), intent(in) :: x
        real(dp) :: fi
    end function foo_dp
end submodule n
