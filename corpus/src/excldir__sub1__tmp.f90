module oumods
  use, intrinsic :: iso_c_binding
  implicit integer(c_int) (i-k), integer(c_int) (m,n), &
       & real(c_double) (a-h), real(c_double) (l), real(c_double) (o-z)

       TYPE :: ex_type
       INTEGER :: A = 0
     CONTAINS
       FINAL :: del_ex_type
       PROCEDURE :: sub => ex_sub
     END TYPE ex_type

contains
  subroutine zI12(t,c,alpha,beta,r)
    complex(c_double_complex) c,r,    x,y,z
     z = c*t
     y = exp(z)
     x = (2.0_c_double * cosh((z - cmplx(0._c_double,3.14159265358979324_c_double, kind(1._c_double))) &
          & /2._c_double )) / (c / exp((z + cmplx(0._c_double,3.14159265358979324_c_double,kind(1._c_double)))/2._c_double))
     r = beta*r+alpha*((t*y - x)/c)
  end subroutine
end module
