module test_doxygen
    implicit none

contains

    !> @brief inserts a value into an ordered array
    !!
    !! An array "list" consisting of n ascending ordered values. The method insert a
    !! "new_entry" into the array.
    !! hint: use cshift and eo-shift
    !!
    !! @param[in,out]   list    a real array, size: max_size
    !! @param[in]       n       current values in the array
    !! @param[in]       max_size    size if the array
    !! @param[in]       new_entry   the value to insert
    subroutine insert(list, n, max_size, new_entry)
        real, dimension (:), intent (inout) :: list
        integer, intent (in) :: n, max_size
        real, intent (in) :: new_entry
    end subroutine insert

    !> @brief calcs the angle between two given vectors
    !!
    !! using the standard formula:
    !!  \f$\cos \theta = \frac{ \vec v \cdot \vec w}{\abs{v}\abs{w}}\f$.
    !!
    !! @param[in]   \f$v,w\f$   real vectors
    !!                      size: n
    !! @return  a real value describing the angle. 0 if \f$\abs v\f$ or \f$\abs w\f$ below a
    !!          threshold.
    pure function calc_angle(v, w) result (theta)
        real, dimension (:), intent (in) :: v, w
        real :: theta
    end function calc_angle

end module test_doxygen
