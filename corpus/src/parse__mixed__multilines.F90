program multiline_tests
  implicit none
  integer :: result
  character(len=100) :: str

  ! Test: Simple multi-line continuation
  result = 1 + &
    2 + &
    3

  ! Test: Multi-line continuation with a preprocessor directive
  result = 10 + &
#ifdef TEST
    20 + &
#endif
    30

  ! Test: Multi-line continuation with string concatenation
  str = 'Hello' // &
  & ' ' // &
  &  'World'

  ! Test: Multi-line continuation with mixed preprocessor and arithmetic operations
  result = &
#ifdef MULT
    (10*2) + &
#else
    (10 * 3) + &
#endif
  & 10 * 4

  ! Test: Multi-line continuation with C preprocessor && sequence
  result = 100 + &
#if defined(TEST) && defined(MULT)
  &(20) + &
#endif
  &10

  ! Test: multiplee Multi-line continuation with C preprocessor and comments
  result = 1000 + & ! Comment 0
#if defined( TEST ) && defined( MULT )
  &100 + &  ! Comment 1
  &200+&    !! Comment 2
#else
    500 + & !!! Comment 3
#endif
  &600

end program multiline_tests
