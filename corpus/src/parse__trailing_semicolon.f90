program trailing_semicolon_in_end_scope
  integer :: i
  do i=1, 3
      print *, "Hello World!"
  end do;
end program trailing_semicolon_in_end_scope
