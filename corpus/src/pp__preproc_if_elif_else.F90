subroutine preprocessor_if_elif_else()

! This file, as used in test_preproc, and together with the two similar files,
! tests that when there is an if-elif-elif-else, only the first branch that
! evaluates to true is used, and the others ignored. Also when multiple
! conditions evaluate to true.

#if 0
#define PART1 0
#elif 0
#define PART2 0
#elif 0
#define PART3 0
#else
#define PART4 1
#endif

#ifndef PART1
#define PART1 0
#endif
#ifndef PART2
#define PART2 0
#endif
#ifndef PART3
#define PART3 0
#endif
#ifndef PART4
#define PART4 0
#endif

integer, parameter :: res = PART1+PART2+PART3+PART4

endsubroutine preprocessor_if_elif_else
