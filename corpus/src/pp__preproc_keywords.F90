program test_preproc_keywords
REAL &
#ifdef HAVE_CONTIGUOUS
, CONTIGUOUS &
#endif
, POINTER :: &
var1(:), &
var2(:)

end program test_preproc_keywords
