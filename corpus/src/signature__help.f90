module sig_help_markdown
  implicit none
  private

contains
  !> Top level Doc
  subroutine sub2call(arg1, arg2)
    integer, intent(in) :: arg1 !< Doc for arg1
    integer, intent(in), optional :: arg2 !< Doc for arg2
    print*, "sub2call: arg1=", arg1
    if (present(arg2)) print*, "sub2call: arg2=", arg2
  end subroutine sub2call

  !> Top level Doc
  function fun2fcall(arg1, arg2) result(res)
    integer, intent(in) :: arg1 !< Doc for arg1
    integer, intent(in), optional :: arg2 !< Doc for arg2
    integer :: res
    res = arg1
    if (present(arg2)) res = res + arg2
  end function fun2fcall

  subroutine calling()
    call sub2call(1, 2)
    print*, "fun2fcall(1, 2)=", fun2fcall(1, 2)
  end subroutine calling

end module sig_help_markdown
