module parent_mod
  implicit none
  type :: typ
    real(kind=8) :: value
  contains
    procedure :: method1 => submod_method1
  end type typ
  interface
    module subroutine submod_method1(this)
      class(typ), intent(inout) :: this
    end subroutine submod_method1
    module subroutine submod_method2(this, value)
      class(typ), intent(inout) :: this
      real, intent(in) :: value
    end subroutine submod_method2
  end interface
end module parent_mod
submodule(parent_mod) submod
contains
  module subroutine submod_method1(this)
    class(typ), intent(inout) :: this
    this%value = 0
  end subroutine submod_method1
end submodule submod
