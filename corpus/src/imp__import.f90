module import_mod
  implicit none
  type :: type1
    real(kind=8) :: value
  contains
    procedure :: abs_int => abs_int1
  end type type1
  type :: type2
    type(type1) :: t
  end type type2
  interface
    subroutine abs_int1(this)
      import type1
      class(type1), intent(inout) :: this ! only type1
    end subroutine abs_int1
    subroutine abs_int2(this)
      import, only: type2
      class(type2), intent(inout) :: this ! only type2
    end subroutine abs_int2
    subroutine abs_int3(this)
      import, none
      class(type1), intent(inout) :: this ! no comp results
    end subroutine abs_int3
    subroutine abs_int4(this)
      import, all
      class(type1), intent(inout) :: this ! type1 and type2
    end subroutine abs_int4
    subroutine abs_int5(this)
      import
      class(type1), intent(inout) :: this ! type1 and type2
    end subroutine abs_int5
    subroutine abs_int6(this)
      import type1
      import type2
      class(type1), intent(inout) :: this ! type1 and type2
    end subroutine abs_int6
    subroutine abs_int7(this)
      import :: type1, type2
      class(type1), intent(inout) :: this ! type1 and type2
    end subroutine abs_int7
  end interface
end module import_mod

program main
  use import_mod
  type(type1) :: obj
  call obj%abs_int()
end program main
