program test_nan
   use, intrinsic :: iso_fortran_env, only: sp=>real32, dp=>real64, qp=>real128
   use, intrinsic :: ieee_arithmetic, only: ieee_value, ieee_quiet_nan, ieee_is_nan
   implicit none

   complex(qp) :: nan_zp

   nan_zp = ieee_value(1.,ieee_quiet_nan)
   print '(A4,2X,F5.1,6X,L1,2X,Z32)','zp',real(nan_zp), ieee_is_nan(real(nan_zp)),nan_zp
end program test_nan
