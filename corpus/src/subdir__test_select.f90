MODULE test_select
IMPLICIT NONE
!
TYPE :: parent
  INTEGER(4) :: n
END TYPE parent
!
TYPE, EXTENDS(parent) :: child1
  REAL(8) :: a
END TYPE child1
!
TYPE, EXTENDS(parent) :: child2
  COMPLEX(8) :: a
END TYPE child2
CONTAINS
!
SUBROUTINE test_select_sub(self)
CLASS(parent), INTENT(inout) :: self
! Select statement with binding
SELECT TYPE(this=>self)
TYPE IS(child1)
  this%a
CLASS IS(child2)
  this%a
CLASS DEFAULT
  this%n
END SELECT
! Select statement without binding
SELECT TYPE(self)
TYPE IS(child1)
  self%a
END SELECT
END SUBROUTINE test_select_sub
END MODULE test_select
