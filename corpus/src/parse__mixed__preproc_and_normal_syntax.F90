
  USE base_hooks
#if VAR < 8 || VAR == 8 && VAR2 < 3
#define OMP_DEFAULT_NONE_WITH_OOP NONE
#endif
