program test_arg_names_as_keywords
    implicit none
    integer, parameter :: impure = 8
contains
    subroutine foo(recursive, ierr)
        integer, intent(in) :: recursive
        integer, intent(out) :: ierr
        print*, recursive
    end subroutine foo
    real(8) impure elemental function foo2(recursive, elemental) result(pure)
        integer, intent(in) :: recursive, elemental
    end function foo2
    real( kind = impure ) pure elemental function foo3(recursive) result(pure)
        integer, intent(in) :: recursive
    end function foo3
    subroutine foo4(&
        recursive, &
        ierr)
        integer, intent(in) :: recursive
        integer, intent(out) :: ierr
        print*, recursive
    end subroutine foo4
    pure real(impure) function foo5(recursive) result(val)
        integer, intent(in) :: recursive
    end function foo5
end program test_arg_names_as_keywords
