subroutine preprocessor_if_nested()

! This file, as used in test_preproc, tests that when there are nested
! if-else preprocessor blocks, only the branches are used where ALL
! statements leading to the definition evaluate to true.

#if 0
#if 1
#define PART1 1
#else
#define PART2 1
#endif
#else
#if 1
#define PART3 1
#else
#define PART4 1
#endif
#endif

#ifndef PART1
#define PART1 0
#endif
#ifndef PART2
#define PART2 0
#endif
#ifndef PART3
#define PART3 0
#endif
#ifndef PART4
#define PART4 0
#endif

integer, parameter :: res = PART1+PART2+PART3+PART4

endsubroutine preprocessor_if_nested
