
! Tests that the parser will not break, when parsing incomplete variables
! constructs. This is particularly important for autocompletion.
program test_incomplete_dims
    implicit none
    integer   :: dim_val(1, 2
    character :: char_val*(10
    integer   :: (
end program test_incomplete_dims
