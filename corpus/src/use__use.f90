module use_mod
integer :: val1, val2, val3
contains
end module use_mod
module use_mod_all
integer :: val4, val5
contains
end module use_mod_all

program use_main
use use_mod, only: val1, val2
use use_mod, only: val3_renamed => val3
use use_mod_all, only: val4
use use_mod_all, only: val4, val5
print*, val3_renamed
print*, val4
end program use_main
