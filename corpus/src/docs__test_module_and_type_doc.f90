!> module doc for doxygen_doc_mod
!!
!! with info
module doxygen_doc_mod
    implicit none

    !> Doc for a_t
    type :: a_t
    end type
end module


module ford_doc_mod
    !! Doc for ford_doc_mod
    implicit none

    type :: b_t
        !! Doc for b_t
    end type

end module


program main
    use doxygen_doc_mod
    use ford_doc_mod

    type(a_t) :: a
    type(b_t) :: b
end program
