module tree
    type tree_inode
        integer :: value = 0
        type (tree_inode), pointer :: left=>null()
        type (tree_inode), pointer :: right=>null()
        type (tree_inode), pointer :: parent=>null()
    end type tree_inode

contains
    recursive subroutine recursive_assign_descending(node, vector, current_loc)
        type(tree_inode), pointer, intent(in) :: node
        integer, dimension(:), intent(inout)  :: vector
        integer, intent(inout)                :: current_loc

        if (associated(node)) then
            call recursive_assign_descending(node%right, vector, current_loc)
            vector(current_loc) = node%value
            current_loc = current_loc + 1
            call recursive_assign_descending(node%left, vector, current_loc)
        end if
        return
    end subroutine recursive_assign_descending
end module tree
