program params
    implicit none
    integer, parameter :: var = &
                          1000, &
                          var2 = 23, var3 = &
                          var*var2, &
                          var4 = 123
    double precision, parameter :: somevar = 23.12, some = 1e-19
    logical(kind=8), parameter :: long_bool = .true.
    character(len=5), parameter :: sq_str = '12345'
    character(len=5), parameter :: dq_str = "12345"
    integer, parameter :: var_no_space=123
    integer, parameter :: var_more_space  =   123
    integer, parameter :: var_sum1  = 1 + 23
    integer, parameter :: var_ex1  = 1 - 23
    integer, parameter :: var_mul1  = 1  *   23
    integer, parameter :: var_div1  = 1/1
    INTEGER, PARAMETER :: var_multi2 = 1 *   &
                                        23 + &
                                        2 /1        ! comment
    INTEGER(4), PARAMETER :: SIG$ERR   = -1
end program params
