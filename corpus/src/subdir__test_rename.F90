module rename_mod1
real(8) :: var1
end module rename_mod1
!
module rename_mod2
use rename_mod1, only: renamed_var1 => var1
integer :: originalname
end module rename_mod2
!
subroutine test_rename_sub()
use rename_mod2, only : localname => originalname, renamed_var2 => renamed_var1
implicit none
!
localname = 4
renamed_var2 = 4
end subroutine test_rename_sub
