MODULE test_free
USE, INTRINSIC :: iso_fortran_env, ONLY: error_unit
IMPLICIT NONE
! ą
TYPE :: scale_type
  REAL(8) :: val = 1.d0
END TYPE scale_type
!
TYPE :: vector
  INTEGER(4) :: n
  REAL(8), POINTER, DIMENSION(:) :: v => NULL()
  PROCEDURE(fort_wrap), NOPASS, POINTER :: bound_nopass => NULL()
CONTAINS
  PROCEDURE :: create => vector_create !< Doc 1
  PROCEDURE :: norm => vector_norm !< Doc 2
  PROCEDURE, PASS(self) :: bound_pass => bound_pass   !< Doc 3
END TYPE vector
!
TYPE, EXTENDS(vector) :: scaled_vector
  TYPE(scale_type) :: scale
CONTAINS
  PROCEDURE :: set_scale => scaled_vector_set !<
  PROCEDURE :: norm => scaled_vector_norm !< Doc 3
END TYPE scaled_vector
!
INTERFACE
  SUBROUTINE fort_wrap(a,b)
  INTEGER(4), INTENT(in) :: a
  REAL(8), INTENT(out) :: b
  END SUBROUTINE fort_wrap
END INTERFACE
!
LOGICAL :: module_variable
CONTAINS
!> Doc 4
SUBROUTINE vector_create(self, n)
CLASS(vector), INTENT(inout) :: self
INTEGER(4), INTENT(in) :: n !! Doc 5
self%n=n
ALLOCATE(self%v(n))
self%v=0.d0
END SUBROUTINE vector_create
!> Doc 6
FUNCTION vector_norm(self) RESULT(norm)
CLASS(vector), INTENT(in) :: self
REAL(8) :: norm
norm = SQRT(DOT_PRODUCT(self%v,self%v))
END FUNCTION vector_norm
!> Doc 7
SUBROUTINE scaled_vector_set(self, scale)
CLASS(scaled_vector), INTENT(inout) :: self ! no documentation
REAL(8), INTENT(in) :: scale !< Doc 8
self%scale%val = scale
END SUBROUTINE scaled_vector_set
!> Top level docstring
FUNCTION scaled_vector_norm(self) RESULT(norm)
CLASS(scaled_vector), INTENT(in) :: self  !< self value docstring
REAL(8) :: norm !< return value docstring
norm = self%scale%val*SQRT(DOT_PRODUCT(self%v,self%v))
END FUNCTION scaled_vector_norm
!
PURE REAL(8) FUNCTION unscaled_norm(self)
CLASS(scaled_vector), INTENT(in) :: self
! REAL(8) :: unscaled_norm
unscaled_norm = SQRT(DOT_PRODUCT(self%v,self%v))
END FUNCTION unscaled_norm
!
SUBROUTINE test_sig_Sub(arg1,arg2,opt1,opt2,opt3)
INTEGER, INTENT(in) :: arg1,arg2
INTEGER, OPTIONAL, INTENT(in) :: opt1,opt2,opt3
END SUBROUTINE test_sig_Sub
!
SUBROUTINE bound_pass(arg1, self)
INTEGER(4), INTENT(in) :: arg1  !< Doc 9
  !! Doc 10

!> Doc 11
!! Doc 12
CLASS(vector), INTENT(inout) :: self
self%n = arg1
END SUBROUTINE bound_pass
END MODULE test_free
