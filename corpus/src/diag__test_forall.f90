program test_forall
   implicit none
   integer :: i, j, dim=3, a(10) = 2

   select case (dim)
    case(3)
      forall(i=1:10)
         a(i) = a(i) **2
         forall (j=1:i) a(j) = a(j) ** 2
      end forall
    case default
      call abort()
   end select
end program test_forall
