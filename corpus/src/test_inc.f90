MODULE test_mod

include "subdir/test_inc2.f90"

REAL(8) :: val1

CONTAINS

SUBROUTINE test_sub

val2
END SUBROUTINE test_sub
include 'mpi.f'

END MODULE test_mod
