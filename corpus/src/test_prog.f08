PROGRAM test_program
! Here is a commonly included unicode character "–"
USE test_free, ONLY: vector, scaled_vector, module_variable, test_sig_sub
IMPLICIT NONE
!
CHARACTER(LEN=*) :: test_str1 = "i2.2,':',i2.2", test_str2 = 'i2.2,":",i2.2'
INTEGER(4) :: n,a,b,c,d
REAL(8) :: x,y
COMPLEX(8) :: xc,yc
TYPE(vector) :: loc_vector
TYPE(scaled_vector) :: stretch_vector, vector1d(1)
!
y = myfun(n,x)
CALL glob_sub(n,xc,yc)
!
CALL loc_vector%create(n)
x = loc_vector%norm()
CALL loc_vector%bound_nopass(a,x)
CALL loc_vector%bound_pass(n)
!
CALL stretch_vector%create(n)
CALL stretch_vector%set_scale(loc_vector%norm(self))
x = stretch_vector%norm()
y = stretch_vector%scale%val
!
CALL test_sig_Sub(a,b,opt2=c,opt3=d)
PRINT*, module_variable
y = stretch_vector%scale % val
y = stretch_vector % scale	%	val
y = vector1d(  1 ) % scale	%	val
END PROGRAM test_program
