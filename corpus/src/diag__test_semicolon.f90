program test_semicolon
    implicit none
    integer :: a = 1; character(len=1) :: v; real, parameter :: p = 0.1E-4; character(len=10), parameter :: str = "a;val;that"
    character(len=100), parameter :: str2 = "a;string;"&
    "that;becomes"//       &
    ";"&
    &"multiline";integer&
    :: b;real           &
    &,&
    parameter&
    ::&
    c&
    =&
    100&
    &0090;real :: d;real::e;real::f
    print*, "one";
    print*, str2
    print*, a; print*, p; ! a; comment; that;contains; semi-colons
end program test_semicolon
