module mod_a
   integer, parameter   :: q_a = 4
end module

module mod_b
   use mod_a
   integer, parameter   :: q_b = 8
end module

program test_use_ordering
   use mod_b,  only: q_b
   use mod_a

   real(q_a) :: r_a
   real(q_b) :: r_b
end program test_use_ordering
