program test_variable
    integer :: val
    contains
    subroutine foo()
        integer :: val  ! Warn: shadows parent
    end subroutine
end program test_variable
