program multiline_lexical_token
implicit none
inte&
    &ger &
    :: i
RE&
&AL(int(sin(0.5))&
 &+8+len("ab)&
    &)c")-3) :: Z
end program
