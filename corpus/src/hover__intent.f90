subroutine intent(arg1, arg2, arg3, arg4, arg5)
    implicit none
    integer(4), intent(in) :: arg1
    integer, intent(out) :: arg2
    integer(4), intent(inout) :: arg3
    integer(4), intent(in out) :: arg4
    real, optional, intent(in) :: arg5
end subroutine intent
