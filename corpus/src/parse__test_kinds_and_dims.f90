subroutine normal_kinds()
    integer, parameter :: r15 = selected_real_kind(15)
    integer(kind=4) :: a, b(3,4)
    integer*8 aa, bb(3,4)
    integer(8) :: aaa, bbb(3,4)
    real(kind=r15) :: r
    real(kind(0.d0)) :: rr
end subroutine normal_kinds

real*8 function foo(val) result(r)
    real(8), intent(in) :: val
    r = val
end function foo

real(kind=8) function phi(val) result(r)
    real(8), intent(in) :: val
    r = val
end function phi

subroutine character_len_parsing(input)
    ! global variable_type * length variable_name1, variable_name2,...
    CHARACTER*17 A, B(3,4), V(9)
    CHARACTER*(6+3) C
    CHARACTER*10D(3,4)
    CHARACTER*(LEN(B))DD(3,4)
    ! local variable_type variable_name1 * length, variable_name2 * length,...
    CHARACTER AA*17, BB(3,4)*17, VV(9)*17
    CHARACTER CC*(6+3)
    CHARACTER AAA*(LEN(A))
    CHARACTER INPUT(*)*10
    ! explicit len and kind for characters
    CHARACTER(LEN=200) F
    CHARACTER(KIND=4, LEN=200) FF(3,4)
    CHARACTER(KIND=4, LEN=200) AAAA(3,4)*100

    ! override global length with local length
    CHARACTER*10 BBB(3,4)*(LEN(B))      ! has the length of len(b)
    CHARACTER*10CCC(3,4)*(LEN(B))       ! no-space
    CHARACTER(KIND=4) BBBB(3,4)*(LEN(B))      ! cannot have *10(kind=4) or vice versa

    INTEGER((4)) INT_KIND_IMP   ! FIXME: (()) trips up the regex
end subroutine character_len_parsing
