PROGRAM test_associate_block
    IMPLICIT NONE
    REAL :: A(5), B(5,5), C, III = 1
    ASSOCIATE (X => A, Y => C)
        PRINT*, X, Y, III
    END ASSOCIATE
    ASSOCIATE (X => 1)
        PRINT*, X
    END ASSOCIATE
    ASSOCIATE (ARRAY => B(:,1))
        ARRAY (3) = ARRAY (1) + ARRAY (2)
    END ASSOCIATE
END PROGRAM test_associate_block
