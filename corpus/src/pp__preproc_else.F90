subroutine preprocessor_else(var)

#if 0
#define MYTYPE logical
#else
#define MYTYPE integer
#endif

MYTYPE :: var0

#undef MYTYPE

#if 1
#define MYTYPE real
#else
#define MYTYPE character
#endif

MYTYPE :: var1

endsubroutine preprocessor_else
