program test_critical
    implicit none
    if (.true.) then
        critical
        end critical
    end if
end program test_critical
