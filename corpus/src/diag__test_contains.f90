program test_contains
    implicit none
    contains
    contains
end program test_contains
contains

module test_contains2
    subroutine foo()    ! Err: before contains
    end subroutine
    contains
end module test_contains2
