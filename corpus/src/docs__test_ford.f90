module test_fortd
    implicit none

contains

    subroutine feed_pets(cats, dogs, food, angry)
        !! Feeds your cats and dogs, if enough food is available. If not enough
        !! food is available, some of your pets will get angry.

        ! Arguments
        integer, intent(in)  :: cats
            !! The number of cats to keep track of.
        integer, intent(in)  :: dogs
            !! The number of dogs to keep track of.
        real, intent(inout)  :: food
            !! The amount of pet food (in kilograms) which you have on hand.
        integer, intent(out) :: angry
            !! The number of pets angry because they weren't fed.

        return
    end subroutine feed_pets
end module test_fortd
