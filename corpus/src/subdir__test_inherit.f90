MODULE test_inherit
USE :: test_free, ONLY: scaled_vector
IMPLICIT NONE
!
TYPE, EXTENDS(scaled_vector) :: myvec
  REAL(8) :: x
END TYPE myvec
CONTAINS
SUBROUTINE inherit_completion(self)
TYPE(myvec), INTENT(INOUT) :: self
self%scale%val
END SUBROUTINE inherit_completion
END MODULE test_inherit
