#if !defined (PETSCERRORDEF_H)
#define PETSCERRORDEF_H

#define PETSC_ERR_MEM              55
#define PETSC_ERR_INT_OVERFLOW     84
#define PETSC_ERR_FLOP_COUNT       90

#if defined PETSC_ERR_MEM || defined PETSC_ERR_INT_OVERFLOW
#define SUCCESS .true.
#endif

#endif
