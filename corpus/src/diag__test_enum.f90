program test_enum
   implicit none
   enum, bind(c)

      enumerator :: red =1, blue, black =5
      enumerator yellow
      enumerator gold, silver, bronze
      enumerator :: purple
      enumerator :: pink, lavender

   endenum
end program test_enum
