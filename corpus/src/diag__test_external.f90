program test_external
    implicit none
    REAL, EXTERNAL :: VAL
    REAL         VAR_A
    EXTERNAL     VAR_A
    EXTERNAL     VAR_B
    REAL         VAR_B
    EXTERNAL     VAR_B   ! throw error
    REAL         VAR_A   ! throw error
    EXTERNAL     VAR_C
end program test_external
