submodule (p1) val
end

submodule (p2)
