module some_mod
    implicit none

    type, abstract :: base_t
    end type

    type, abstract, extends(base_t) :: extends_t
    end type

    type, extends(extends_t) :: a_t
    end type
end module
