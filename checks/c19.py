"""C19 — command line and configuration file are interchangeable; the file wins.

Level  : fault_enumeration.  Every documented option x cell in {CLI only, file only, both with
         different values, CLI + a file that is silent on the option} is enumerated; pairs of
         options are drawn by Hypothesis; malformed configuration files of every kind are the
         injected faults.
Oracle : differential against a reference server that receives the *effective* value through
         the command line only (reference model: effective = file value if the file names the
         option, else CLI value, else default).  Compared: an observable battery (capabilities,
         start-up messages, discovered files, diagnostics, outline, hovers, completions,
         signature help, recursion limit) and the option attributes after initialize.
         For a faulty file: at least one window/showMessage, battery otherwise equal to the
         no-file run, initialize answered with a result.
"""
from __future__ import annotations

import json
import os
import shutil
import sys

from hypothesis import strategies as st

from harness.findings import Disc, exc_signature
from harness.lsp import Server, pos_params, uri_of

PROPERTY = "C19"
LEVEL = "fault_enumeration"
SHARDS = {"quick": 8, "thorough": 16}
RULE = (
    "enumeration of every documented option x {CLI only, file only, both (different values), CLI + file silent "
    "on the option} x config file name (.fortlsrc, .fortls.json, .fortls, -c NAME); Hypothesis pairs/triples of "
    "options over the same cells; fault list: missing named file, empty file, truncated JSON, trailing garbage, "
    "top-level list/string/number/null, wrong value type per option.  Non-trivial = a 'both' or 'file silent' "
    "cell, or a fault; distinct by (options, cells, values, file name / fault)."
)
ASSUMPTIONS = [
    "disable_autoupdate stays on (no network) and debug_log stays off (it is the one documented file side effect)",
    "the reference run passes the effective values on the command line; an option broken identically in both channels is caught only "
    "by the per-option effect assertion (battery must differ from the default run for options with an observable effect)",
]

# option -> (kind, value1, value2, has observable effect in the battery)
OPTIONS = {
    "nthreads": ("int", 2, 3, False),
    "notify_init": ("bool", True, False, True),
    "incremental_sync": ("bool", True, False, True),
    "recursion_limit": ("int", 1500, 1700, True),
    "sort_keywords": ("bool", True, False, True),
    "source_dirs": ("list", ["sub"], ["ex", "sub"], True),
    "incl_suffixes": ("list", [".inc"], [".inc", ".h"], True),
    "excl_suffixes": ("list", ["_skip.f90"], ["s.f90"], True),
    "excl_paths": ("list", ["ex"], ["sub", "ex/**"], True),
    "autocomplete_no_prefix": ("bool", True, False, True),
    "autocomplete_no_snippets": ("bool", True, False, True),
    "autocomplete_name_only": ("bool", True, False, True),
    "lowercase_intrinsics": ("bool", True, False, True),
    "use_signature_help": ("bool", True, False, True),
    "hover_signature": ("bool", True, False, False),
    "hover_language": ("str", "vlang", "otherlang", True),
    "max_line_length": ("int", 60, 45, True),
    "max_comment_line_length": ("int", 50, 30, True),
    "disable_diagnostics": ("bool", True, False, True),
    "pp_suffixes": ("list", [".f90"], [".F90", ".f90"], True),
    "include_dirs": ("list", ["inc"], ["inc", "sub"], True),
    "pp_defs": ("dict", {"FOO": "1"}, {"BAR": "2"}, True),
    "symbol_skip_mem": ("bool", True, False, True),
    "enable_code_actions": ("bool", True, False, True),
}
# other accepted spellings of a value: pp_defs may be a list of names (defined, without a value)
ALT_VALUES = {"pp_defs": [["FOO"], ["BAR", "FOO"]]}
OTHER = ("hover_language", "zz9")
OTHER2 = ("max_line_length", 72)

FILES = {
    "m.f90": """module mmod
  implicit none
  type :: tbox
    integer :: width
    real :: height
  contains
    procedure :: area
  end type tbox
  real, parameter, dimension(3), public :: consts = [1.0, 2.0, 3.0]
#ifdef FOO
  integer :: foo_on_in_f90
#endif
contains
  !> doc of area
  real function area(self)
    class(tbox), intent(in) :: self
    area = self%width * self%height * size(consts) ! a rather long trailing comment to push the line length over sixty
  end function area
  ! a comment line that is by itself clearly longer than fifty characters in total length
  subroutine helper(first_arg, second_arg)
    integer, intent(in) :: first_arg
    real, optional, intent(inout) :: second_arg
    call helper(first_arg, second_arg)
    call hel
    write(*,*) si
  end subroutine helper
end module mmod
""",
    "p.F90": """#include "h.h"
module pmod
  implicit none
#ifdef FOO
  integer :: foo_on
#else
  integer :: foo_off
#endif
#ifdef BAR
  integer :: bar_on
#endif
#ifdef HDR
  integer :: hdr_on
#endif
end module pmod
""",
    "inc/h.h": "#define HDR 1\n",
    "sub/s.f90": "module smod\n  integer :: sv\nend module smod\n",
    "ex/e.f90": "module emod\n  integer :: ev\nend module emod\n",
    "ex/deep/d.f90": "module dmod\n  integer :: dv\nend module dmod\n",
    "t_skip.f90": "module tmod\n  integer :: tv\nend module tmod\n",
    "u.inc": "module umod\n  integer :: uv\nend module umod\n",
    "w.h": "module wmod\n  integer :: wv\nend module wmod\n",
}


def cli_args(opts):
    argv = []
    for k, v in opts.items():
        kind = OPTIONS[k][0] if k in OPTIONS else ("str" if isinstance(v, str) else "int")
        if kind == "bool":
            if v:
                argv.append("--" + k)
        elif kind in ("int", "str"):
            argv += ["--" + k, str(v)]
        elif kind == "list":
            argv += ["--" + k] + list(v)  # an empty list is expressible: the option without values (nargs="*")
        elif kind == "dict":
            argv += ["--" + k, json.dumps(v)]
    return argv


def make_ws(root, cfg_name=None, cfg_text=None):
    shutil.rmtree(root, ignore_errors=True)
    for fn, text in FILES.items():
        p = os.path.join(root, fn)
        os.makedirs(os.path.dirname(p), exist_ok=True)
        with open(p, "w") as fh:
            fh.write(text)
    if cfg_name is not None and cfg_text is not None:
        with open(os.path.join(root, cfg_name), "w") as fh:
            fh.write(cfg_text)


def battery(root, argv):
    """-> (dict battery, init response, messages) ; raises nothing."""
    srv = Server(root=root, argv=["--disable_autoupdate"] + argv)
    b = {}
    init = srv.init_response or {}
    b["init_error"] = init.get("error", {}).get("message") if "error" in init else None
    b["capabilities"] = (init.get("result") or {}).get("capabilities")
    msgs = sorted((o["params"].get("type"), o["params"].get("message", "").replace(root, "$ROOT")) for o in srv.init_notes
                  if o.get("method") == "window/showMessage")
    b["files"] = sorted(os.path.relpath(p, root) for p in srv.s.workspace)
    diags = {}
    for rel in sorted(b["files"]):
        outs = srv.did_open(os.path.join(root, rel))
        ds = []
        for o in outs:
            if o.get("method") == "textDocument/publishDiagnostics":
                ds += sorted((d["range"]["start"]["line"], d["severity"], d["message"]) for d in o["params"]["diagnostics"])
            elif o.get("method") == "window/showMessage":
                ds.append(("msg", o["params"].get("message", "").replace(root, "$ROOT")))
        diags[rel] = ds if outs else "no-notification"
    b["diagnostics"] = diags
    m, p = os.path.join(root, "m.f90"), os.path.join(root, "p.F90")

    def ask(method, params):
        r, _ = srv.request(method, params)
        return r.get("result") if "error" not in r else {"error": r["error"].get("message")}

    b["symbols"] = {rel: [(s["name"], s["kind"], s.get("containerName"), s["location"]["range"]["start"]["line"])
                          for s in (ask("textDocument/documentSymbol", {"textDocument": {"uri": uri_of(os.path.join(root, rel))}}) or [])]
                    for rel in ("m.f90", "p.F90", "sub/s.f90")}
    b["wsymbols"] = sorted(s["name"] for s in (ask("workspace/symbol", {"query": ""}) or []) if isinstance(s, dict))
    b["hover"] = [ask("textDocument/hover", pos_params(m, ln, ch)) for ln, ch in ((8, 46), (14, 18), (16, 52), (21, 40), (19, 15), (3, 16))]
    comp = []
    for ln, ch in ((23, 12), (24, 17), (16, 15), (22, 10)):
        r = ask("textDocument/completion", pos_params(m, ln, ch))
        comp.append(sorted((i.get("label"), i.get("kind"), i.get("insertText"), i.get("detail")) for i in r) if isinstance(r, list) else r)
    b["completion"] = comp
    b["signature"] = ask("textDocument/signatureHelp", pos_params(m, 22, 27))
    b["codeaction"] = ask("textDocument/codeAction", {"textDocument": {"uri": uri_of(m)}, "range": {"start": {"line": 2, "character": 0},
                                                                                                  "end": {"line": 7, "character": 0}}, "context": {"diagnostics": []}})
    b["recursionlimit"] = sys.getrecursionlimit()
    attrs = {}
    for k in OPTIONS:
        v = getattr(srv.s, k, "<missing>")
        if isinstance(v, (set, list, tuple)):
            v = sorted(str(x).replace(root, "$ROOT") for x in v)
        if v in (None, [], {}):
            v = None  # "not set" has several spellings (None, empty set/list/dict)
        if k == "include_dirs":
            continue  # grows as a side effect of parsing (C10's subject); its effect is observed through hdr_on
        attrs[k] = v
    b["attrs"] = attrs
    return json.loads(json.dumps(b, default=str)), init, msgs


def diff_battery(a, b, ignore_attrs=()):
    out = []
    for k in a:
        if k == "attrs":
            for o in a[k]:
                if o in ignore_attrs or o not in b[k]:
                    continue
                if a[k][o] != b[k][o]:
                    out.append(f"attribute {o}: {a[k][o]!r} vs {b[k][o]!r}")
        elif a[k] != b[k]:
            out.append(f"{k}: {json.dumps(a[k])[:160]} vs {json.dumps(b[k])[:160]}")
    return out


def effective_cli(cli, file):
    eff = dict(cli)
    eff.update(file)
    return eff


# ------------------------------------------------------------------ one case
def run_case(case, scratch):
    """case: {"cli": {opt: v}, "file": {opt: v}, "cfg": name | ["-c", name], "fault": None | kind}"""
    root = os.path.join(scratch, "c19_ws")
    ref_root = os.path.join(scratch, "c19_ref")
    discs = []
    cfgname = case.get("cfg", ".fortlsrc")
    extra_argv = []
    if isinstance(cfgname, list):
        extra_argv, cfgname = ["-c", cfgname[1]], cfgname[1]
    fault = case.get("fault")
    try:
        if fault is None:
            make_ws(root, cfgname, json.dumps(case["file"]))
            make_ws(ref_root)
            got, init, msgs = battery(root, cli_args(case["cli"]) + extra_argv)
            b2, init2, msgs2 = battery(ref_root, cli_args(effective_cli(case["cli"], case["file"])))
            diffs = diff_battery(got, b2)
            if msgs != msgs2:
                diffs.append(f"start-up messages {msgs!r} vs {msgs2!r}")
            if diffs:
                opts = sorted(set(case["cli"]) | set(case["file"]))
                cells = "+".join(sorted({cell_of(o, case) for o in opts}))
                blame = sorted({o for o in OPTIONS if any(d.startswith(f"attribute {o}:") for d in diffs)}) or opts
                discs.append(Disc(f"channel-mismatch:{'/'.join(blame)}:{cells}",
                                  f"cli={case['cli']} file={case['file']} ({cfgname}) differs from the same effective options given by CLI only: "
                                  + "; ".join(diffs)[:600]))
        else:
            text = FAULTS[fault](case)
            make_ws(root, None if text is None else cfgname, text)
            make_ws(ref_root)
            got, init, msgs = battery(root, cli_args(case["cli"]) + extra_argv)
            b2, init2, msgs2 = battery(ref_root, cli_args(case["cli"]))
            kind = fault.split(":")[0]
            if got["init_error"] is not None:
                discs.append(Disc(f"faulty-config:{kind}:initialize-error",
                                  f"{fault} {text!r}: initialize answered an error: {got['init_error'][:200]}"))
            else:
                if len(msgs) <= len(msgs2):
                    discs.append(Disc(f"faulty-config:{fault}:no-message", f"{fault} {text!r}: no user-visible message (messages: {msgs!r})"))
                diffs = diff_battery(got, b2)
                if diffs:
                    discs.append(Disc(f"faulty-config:{fault}:options-changed", f"{fault} {text!r}: options differ from the CLI-only run: " + "; ".join(diffs)[:500]))
    except Exception as e:
        discs.append(Disc(exc_signature(e, "C19-EXC"), f"{type(e).__name__}: {e} for {case}"))
    finally:
        shutil.rmtree(root, ignore_errors=True)
        shutil.rmtree(ref_root, ignore_errors=True)
    return discs


def cell_of(opt, case):
    c, f = opt in case["cli"], opt in case["file"]
    return "both" if c and f else ("cli" if c else "file")


WRONG = {"int": ["four", [1], None, 2.5], "bool": ["yes", 0, [], None], "str": [5, ["a"], None], "list": [5, "sub", {"a": 1}, None],
         "dict": [5, "FOO", [1, 2], None]}

FAULTS = {
    "missing-named": lambda c: None,
    "empty": lambda c: "",
    "truncated": lambda c: '{"hover_language": "x", "nthreads": ',
    "trailing-garbage": lambda c: '{"hover_language": "x"} trailing',
    "bad-syntax": lambda c: '{"hover_language" "x"}',
    "toplevel-list": lambda c: "[1, 2]",
    "toplevel-string": lambda c: '"just a string"',
    "toplevel-number": lambda c: "42",
    "toplevel-null": lambda c: "null",
    "wrongtype": lambda c: json.dumps({c["wt_opt"]: c["wt_val"]}),
}


def enumerate_cases():
    names = [".fortlsrc", ".fortls.json", ".fortls", ["-c", "custom.json"]]
    k = 0
    for opt, (kind, v1, v2, eff) in OPTIONS.items():
        k += 1
        cfg = names[k % 4]
        yield {"cli": {}, "file": {opt: v1}, "cfg": cfg}  # file only  == CLI only
        yield {"cli": {opt: v1}, "file": {opt: v2}, "cfg": names[(k + 1) % 4]}  # both: file wins
        other = OTHER if opt != OTHER[0] else OTHER2
        yield {"cli": {opt: v1}, "file": {other[0]: other[1]}, "cfg": names[(k + 2) % 4]}  # file silent on opt
        if kind != "bool":
            yield {"cli": {opt: v2}, "file": {opt: v1}, "cfg": names[(k + 3) % 4]}
        if kind in ("list", "dict"):
            # the file names the option with an empty value: it still wins over the command line
            yield {"cli": {opt: v2}, "file": {opt: [] if kind == "list" else {}}, "cfg": names[k % 4]}
    for opt, alts in ALT_VALUES.items():
        for a in alts:
            other = OTHER
            yield {"cli": {}, "file": {opt: a}, "cfg": ".fortlsrc"}
            yield {"cli": {opt: a}, "file": {other[0]: other[1]}, "cfg": ".fortls.json"}
            yield {"cli": {opt: a}, "file": {}, "cfg": ["-c", "custom.json"], "fault": "missing-named"}  # no configuration file at all
            yield {"cli": {opt: OPTIONS[opt][1]}, "file": {opt: a}, "cfg": ".fortls"}
    base = {"hover_language": "clilang", "max_line_length": 60, "pp_defs": {"FOO": "1"}, "notify_init": True, "pp_suffixes": [".F90", ".f90"]}
    for f in FAULTS:
        if f == "wrongtype":
            continue
        cfgs = [["-c", "custom.json"]] if f == "missing-named" else [".fortlsrc", ["-c", "custom.json"]]
        for cfg in cfgs:
            yield {"cli": dict(base), "file": {}, "cfg": cfg, "fault": f}
    for opt, (kind, v1, v2, eff) in OPTIONS.items():
        for wv in WRONG[kind]:
            yield {"cli": {"hover_language": "clilang"}, "file": {}, "cfg": ".fortlsrc", "fault": "wrongtype", "wt_opt": opt, "wt_val": wv}


@st.composite
def multi_case_st(draw):
    opts = draw(st.lists(st.sampled_from(sorted(OPTIONS)), min_size=2, max_size=4, unique=True))
    cli, file = {}, {}
    for o in opts:
        kind, v1, v2, _ = OPTIONS[o]
        cell = draw(st.sampled_from(["cli", "file", "both", "both"]))
        a, b = (v1, v2) if draw(st.booleans()) else (v2, v1)
        if o in ALT_VALUES and draw(st.booleans()):
            a, b = draw(st.sampled_from(ALT_VALUES[o])), draw(st.sampled_from(ALT_VALUES[o] + [b]))
        if cell in ("cli", "both"):
            cli[o] = a if kind != "bool" else True
        if cell in ("file", "both"):
            file[o] = b
            if kind in ("list", "dict") and draw(st.integers(0, 3)) == 0:
                file[o] = [] if kind == "list" else {}
    return {"cli": cli, "file": file, "cfg": draw(st.sampled_from([".fortlsrc", ".fortls.json", ".fortls", ["-c", "custom.json"]]))}


def effect_assertions(ctx):
    """Every option with an observable effect must change the battery when given on the CLI."""
    root = os.path.join(ctx.scratch, "c19_eff")
    make_ws(root)
    base, _, _ = battery(root, [])
    for i, (opt, (kind, v1, v2, eff)) in enumerate(OPTIONS.items()):
        if i % ctx.nshards != ctx.shard:
            continue
        make_ws(root)
        b, _, msgs = battery(root, cli_args({opt: v1}))
        d = diff_battery(base, b, ignore_attrs=())
        nonattr = [x for x in d if not x.startswith("attribute ")] or ([1] if msgs else [])
        ctx.case(("effect", opt), True, classes=["effect-assertion"])
        if not d:
            ctx.check([Disc(f"option-without-effect:{opt}", f"--{opt} {v1!r} changes neither the option attribute nor any observable answer")],
                      {"effect": opt})
        elif eff and not nonattr:
            ctx.check([Disc(f"option-without-observable-effect:{opt}", f"--{opt} {v1!r} changes the attribute but no observable answer of the battery")],
                      {"effect": opt})
    shutil.rmtree(root, ignore_errors=True)


def run(ctx):
    effect_assertions(ctx)
    for i, case in enumerate(enumerate_cases()):
        if i % ctx.nshards != ctx.shard:
            continue
        nt = bool(case.get("fault")) or any(o in case["cli"] for o in case["file"]) or (case["cli"] and case["file"])
        ctx.case(case, bool(nt), sample=case, classes=["fault:" + case["fault"] if case.get("fault") else "cell:" + "+".join(
            sorted({cell_of(o, case) for o in set(case["cli"]) | set(case["file"])}))])
        ctx.check(run_case(case, ctx.scratch), case)
    ctx.notes["exhaustive"] = True
    ctx.notes["exhaustive_space"] = "every option x {file only, both (two orders), CLI + silent file} and the whole fault list are enumerated; option pairs are sampled"

    def oracle(case):
        ctx.case(case, True, sample=case, classes=["multi-option"])
        return run_case(case, ctx.scratch)

    ctx.hyp(multi_case_st(), oracle, max_examples=ctx.n(60, 300))


def replay(ctx, case):
    if "effect" in case:
        return []
    return run_case(case, ctx.scratch)
