"""C13 — the index is invariant under meaning-preserving re-layout of the source.

Metamorphic: the same abstract program (harness/fmodel.py) is rendered twice, once in a plain
baseline layout and once in a drawn layout (LF/CRLF/CR, trailing blanks, ordinary comments,
blank lines, keyword and identifier case, statements split at a token boundary over `&`
continuation lines with or without a leading `&`, simple statements joined with `;`).  The two
servers' normalised dumps must be equal *by entity*: outline entries (by opening/closing statement),
the definition target of every occurrence (mapped back to the occurrence it lands on), and
diagnostics (by statement).  Line numbers are never compared directly, so inserted lines shift
nothing.
"""
from __future__ import annotations

import dataclasses
import os

from hypothesis import strategies as st

from harness import fmodel, fws
from harness.findings import Disc
from harness.lsp import pos_params, uri_of

PROPERTY = "C13"
LEVEL = "exploration"
SHARDS = {"quick": 8, "thorough": 16}
RULE = (
    "Hypothesis: fmodel program x drawn layout (composition of line ending, trailing blanks, comment lines, blank "
    "lines, keyword case, identifier case, END spelling, continuation splitting every n-th statement with/without "
    "leading &, ; joining every n-th simple pair) compared with the plain rendering of the same program.  "
    "Non-trivial = >=2 different transformation kinds of which one is continuation or ';'; distinct by (program, layout)."
)
ASSUMPTIONS = [
    "both renderings come from the same abstract statement list, so they have the same meaning by construction (sampled gfortran check of the transformed text)",
]

ROLES = {"use", "call", "typeref", "extends", "member", "only", "alias", "bindtarget", "modproc", "visref", "decl", "usemod"}


def dump(ctx, prog, r, root):
    """-> (defs: {(stmt id, tok): target key}, outline: {file: sorted entries}, diags: {file: sorted})"""
    srv, diags = fws.start(r, root, open_files=True)
    by_pos = {(o.file, o.line, o.col): o for o in r.occs}
    line_stmt = {}
    for f in prog.files:
        for s in f.stmts:
            if id(s) in r.stmt_lines:
                fn, a, b = r.stmt_lines[id(s)]
                for ln in range(a, b + 1):
                    line_stmt.setdefault((fn, ln), []).append(id(s))
    defs = {}
    for o in r.occs:
        if o.role not in ROLES or o.ent.kind == "construct":
            continue
        resp, _ = srv.request("textDocument/definition", pos_params(os.path.join(root, o.file), o.line, o.col + min(1, len(o.text) - 1)))
        res = resp.get("result")
        if "error" in resp:
            key = ("error", str(resp["error"].get("message"))[:60])
        elif not isinstance(res, dict):
            key = None
        else:
            pos = (os.path.basename(res["uri"]), res["range"]["start"]["line"], res["range"]["start"]["character"])
            t = by_pos.get(pos)
            if t is not None:
                key = ("occ", id(t.stmt), t.tok_i)
            else:
                # not on an identifier: keep the statement and whether the column is right
                key = ("stmt", tuple(line_stmt.get((pos[0], pos[1]), [])), "col-not-on-identifier")
        defs[(id(o.stmt), o.tok_i)] = (key, o)
    outline = {}
    for fn in sorted(r.files):
        resp, _ = srv.request("textDocument/documentSymbol", {"textDocument": {"uri": uri_of(os.path.join(root, fn))}})
        ents = []
        for g in resp.get("result") or []:
            rg = g["location"]["range"]
            ents.append((g["name"].lower(), g["kind"], (g.get("containerName") or "").lower(),
                         tuple(line_stmt.get((fn, rg["start"]["line"]), ["?"]))[:1], tuple(line_stmt.get((fn, rg["end"]["line"]), ["?"]))[:1]))
        outline[fn] = sorted(ents, key=str)
    dg = {}
    for fn, ds in diags.items():
        dg[fn] = sorted(((d["severity"], d["message"].lower(), tuple(line_stmt.get((fn, d["range"]["start"]["line"]), ["?"]))) for d in ds), key=str)
    return defs, outline, dg


def features(layout):
    f = []
    if layout.eol != "\n":
        f.append("eol:" + {"\r\n": "CRLF", "\r": "CR"}[layout.eol])
    if layout.trailing_blanks:
        f.append("trailing-blanks")
    if layout.comment_every:
        f.append("comments")
    if layout.blank_every:
        f.append("blank-lines")
    if layout.kwcase != "lower":
        f.append("keyword-case")
    if layout.idcase != "asis":
        f.append("identifier-case")
    if layout.split_every:
        f.append("continuation" + ("+leading-&" + ("(tight)" if layout.amp_tight else "") if layout.lead_amp else ("+column-1" if layout.cont_col1 else "")))
    if layout.join_every:
        f.append("semicolon")
    if layout.end_style != "full":
        f.append("end:" + layout.end_style)
    return f


def ctx_of(o, layout):
    if o is None:
        return None
    if o.split:
        return "continued-with-&" + ("(leading-&)" if layout.lead_amp else "")
    if o.joined:
        return "joined-with-;"
    return None


def local_label(what, layout, new, o_use, key0):
    """Class label from the local context of a definition discrepancy.  The first structural context found
    wins, in the order: definition of the derived type involved, declaration of the base object of a %
    chain, declaration of the target, the use site itself."""
    def decl_ctx(ent):
        d = [o for o in new.occs if o.ent is ent and o.role == "decl"]
        c = ctx_of(d[0] if d else None, layout)
        return c.split("(")[0] if c else None

    tgt = None
    if key0 is not None and key0[0] == "occ":
        t = [o for o in new.occs if id(o.stmt) == key0[1] and o.tok_i == key0[2]]
        tgt = t[0] if t else None
    c = ctx_of(o_use, layout)
    if c and c.startswith("continued") and not what.startswith("definition-column") and o_use.role in ("decl", "endname") \
            and o_use.ent.kind in ("function", "subroutine", "module", "program", "type", "interface"):
        return f"{what}:name-in-its-own-definition-statement-{c.split('(')[0]}"
    if o_use is not None and o_use.role == "member":
        ti, toks = o_use.tok_i, o_use.stmt.toks
        while fmodel.chain_prev(toks, ti) is not None:
            ti = fmodel.chain_prev(toks, ti)
            b = toks[ti]
            if isinstance(b, fmodel.Ref):
                if isinstance(b.ent.typ, tuple):
                    t_ = b.ent.typ[1]
                    while t_ is not None:
                        c = decl_ctx(t_)
                        if c:
                            return f"{what}:type-definition-statement-{c}"
                        t_ = t_.parent_type
                c = decl_ctx(b.ent)
                if c:
                    return f"{what}:base-object-declaration-{c}"
    if tgt is not None:
        if tgt.ent.kind in ("component", "binding") and tgt.ent.scope is not None and tgt.ent.scope.ent is not None:
            c = decl_ctx(tgt.ent.scope.ent)
            if c:
                return f"{what}:type-definition-statement-{c}"
        c = ctx_of(tgt, layout)
        if c:
            return f"{what}:target-declaration-{c if what.startswith('definition-column') else c.split('(')[0]}"
    c = ctx_of(o_use, layout)
    if c:
        return f"{what}:use-site-{c.split('(')[0]}"
    feats = [x for x in features(layout) if not x.startswith(("continuation", "semicolon"))]
    return f"{what}:" + ("+".join(feats) if feats else "no-transformation")


def check(ctx, prog, layout, scratch):
    base = fmodel.render(prog, fmodel.PLAIN)
    new = fmodel.render(prog, layout)
    fws.gfortran_sample(ctx, new, every=8)
    d0 = dump(ctx, prog, base, os.path.join(scratch, "c13_a"))
    d1 = dump(ctx, prog, new, os.path.join(scratch, "c13_b"))
    feats = features(layout)
    kinds = {x.split(":")[0].split("+")[0] for x in feats}
    nt = len(kinds) >= 2 and ("continuation" in kinds or "semicolon" in kinds)
    ctx.case((hash(tuple(sorted(base.files.items()))), layout.key()), nt, sample={"layout": feats, "text": list(new.files.values())[0][:500]},
             classes=feats + (["nontrivial"] if nt else []))
    discs = []
    defs0, defs1 = d0[0], d1[0]
    seen = set()
    for k, (key1, o1) in defs1.items():
        if k not in defs0:
            continue
        key0, o0 = defs0[k]
        # the target occurrence may have disappeared (END name dropped by the END spelling)
        if key0 != key1:
            # if the baseline lands on a declaration column and the new one lands on the same statement but off the identifier
            if key1 is not None and key1[0] == "stmt" and key0 is not None and key0[0] == "occ" and key0[1] in key1[1]:
                label = local_label("definition-column-off-in-target", layout, new, None, key0)
            else:
                label = local_label("definition-differs", layout, new, o1, key0)
            if label not in seen:
                seen.add(label)
                discs.append(Disc(label, f"definition of {o1.text!r} ({o1.role}) at {o1.file}:{o1.line}:{o1.col} "
                                         f"({new.lines[o1.file][o1.line].strip()[:70]!r}) -> {key1}; plain layout -> {key0}; layout {feats}",
                                  {"file": o1.file, "line": o1.line, "col": o1.col}))
    for fn in d0[1]:
        if d0[1][fn] != d1[1].get(fn):
            a, b = d0[1][fn], d1[1].get(fn, [])
            diff = [x for x in a if x not in b][:2] + [x for x in b if x not in a][:2]
            discs.append(Disc("outline-differs:" + "+".join(feats), f"{fn}: outline differs from the plain layout: {diff}", {"file": fn}))
    for fn in set(d0[2]) | set(d1[2]):
        a, b = list(d0[2].get(fn, [])), list(d1[2].get(fn, []))
        # a joined line carries several statements: a diagnostic matches if its statement is among them
        rest = list(b)
        only_plain = []
        for x in a:
            m = [y for y in rest if y[0] == x[0] and y[1] == x[1] and set(x[2]) & set(y[2])]
            if m:
                rest.remove(m[0])
            else:
                only_plain.append(x)
        if rest or only_plain:
            diff = rest[:3] + [("only-plain",) + tuple(x) for x in only_plain][:3]
            msg = diff[0][1] if diff and len(diff[0]) > 1 and isinstance(diff[0][1], str) else "?"
            import re

            discs.append(Disc("diagnostics-differ:" + re.sub(r'"[^"]*"', '"X"', str(msg))[:50] + ":" + "+".join(feats),
                              f"{fn}: diagnostics differ from the plain layout: {diff}", {"file": fn}))
    return discs, new


def run(ctx):
    def oracle(v):
        prog, layout = v
        return check(ctx, prog, layout, ctx.scratch)[0]

    def case_of(v):
        prog, layout = v
        return {"plain": fmodel.render(prog, fmodel.PLAIN).files, "files": fmodel.render(prog, layout).files, "layout": features(layout)}

    ctx.hyp(st.tuples(fmodel.program_st(), fmodel.layout_st), oracle, max_examples=ctx.n(50, 1500), case_of=case_of,
            collect=bool(os.environ.get("VERIF_COLLECT")))
    for sig, v in ctx.violations.items():
        if isinstance(v.get("detail"), dict):
            v["case"].update(v["detail"])
        v["case"]["signature"] = sig


def replay(ctx, case):
    """Model-free replay: the saved pair of renderings is indexed again and the definition answer at the
    saved position is compared *textually* (same target name on the target line) with the plain one."""
    import re
    import shutil

    from harness.lsp import Server

    out = []
    res = {}
    for tag in ("plain", "files"):
        root = os.path.join(ctx.scratch, "c13_r_" + tag)
        shutil.rmtree(root, ignore_errors=True)
        os.makedirs(root)
        for n, t in case[tag].items():
            with open(os.path.join(root, n), "w", newline="") as fh:
                fh.write(t)
        srv = Server(root=root, argv=fws.ARGV)
        syms = {}
        for n in case[tag]:
            r_, _ = srv.request("textDocument/documentSymbol", {"textDocument": {"uri": uri_of(os.path.join(root, n))}})
            syms[n] = sorted((g["name"].lower(), g["kind"], (g.get("containerName") or "").lower()) for g in r_.get("result") or [])
        res[tag] = (srv, root, syms)
    if res["plain"][2] != res["files"][2]:
        out.append(Disc(case.get("signature", "outline-differs"), "outline (names, kinds, containers) differs between the two renderings"))
    if "line" in case:
        srv, root, _ = res["files"]
        r_, _ = srv.request("textDocument/definition", pos_params(os.path.join(root, case["file"]), case["line"], case["col"] + 1))
        got = r_.get("result")
        lines = re.split(r"\r\n|\n|\r", case["files"][case["file"]])
        word = re.match(r"[\w$]+", lines[case["line"]][case["col"]:])
        if not isinstance(got, dict):
            out.append(Disc(case.get("signature", "definition-differs"), f"definition at {case['file']}:{case['line']}:{case['col']} -> {got}"))
        else:
            tl = re.split(r"\r\n|\n|\r", case["files"][os.path.basename(got["uri"])])[got["range"]["start"]["line"]]
            c = got["range"]["start"]["character"]
            if word and tl[c : c + len(word.group(0))].lower() != word.group(0).lower():
                out.append(Disc(case.get("signature", "definition-column-off"), f"target column {c} of {tl!r} is not on {word.group(0)!r}"))
            if "target" in case and [os.path.basename(got["uri"]), got["range"]["start"]["line"]] != list(case["target"]):
                out.append(Disc(case.get("signature", "definition-differs"), f"definition lands on {os.path.basename(got['uri'])}:{got['range']['start']['line']}, expected {case['target']}"))
    return out
