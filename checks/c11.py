"""C11 — hover and signature help restate the declaration and its documentation.

Domain : a dedicated declaration grammar: intrinsic types with (kind=...), *n, (len=..., kind=...),
         nested parentheses in selectors; type(t) / class(t) / class(*); attribute lists in drawn
         order (intent, dimension(...), allocatable, pointer, target, optional, save, parameter,
         contiguous, public/private, plus value/protected/volatile as a labelled class); several
         entities per statement with entity-level (dims) and *len; initialisers and PARAMETER
         values (literals, expressions, function references, array constructors); procedures with
         0-5 dummies, result(r); documentation blocks `!>` before, `!!` / `!<` after or trailing,
         with blank lines and ordinary comments in between; call sites with nested parentheses,
         strings containing commas, keyword= arguments, cursor at every argument position.
Oracle : the hover code block is parsed back by a small normaliser into (type, selector, attribute
         set with arguments, name, value) and compared with the generated declaration; the
         documentation part must equal the text attached to that entity and to no other; for
         procedures the dummy list and per-dummy declarations in declared order.  signatureHelp:
         the label's argument list == dummies, activeParameter == index of the argument the cursor
         is in (by position or by keyword).
"""
from __future__ import annotations

import os
import re
import shutil

from hypothesis import strategies as st

from harness.findings import Disc
from harness.lsp import Server, pos_params

PROPERTY = "C11"
LEVEL = "exploration"
SHARDS = {"quick": 8, "thorough": 16}
RULE = (
    "Hypothesis: modules of 3-8 drawn declarations (type x selector x attribute list in drawn order x entity list x "
    "initialiser x documentation placement) and 1-3 documented procedures with call sites; hover on every declared name, "
    "signatureHelp at every argument position.  Non-trivial = >=2 attributes with arguments, or a selector containing "
    "parentheses, or a documentation block adjacent to another entity's; distinct by declaration text."
)
ASSUMPTIONS = [
    "declarations are valid Fortran (gfortran -fsyntax-only on a sample); hover text is compared after upper-casing and removing blanks",
    "one documentation style per entity; multi-entity statements carry no documentation",
]

ARGV = ["--disable_autoupdate", "--incremental_sync", "-n", "1", "--sort_keywords", "--use_signature_help"]

TYPES = [
    ("integer", [None, "(kind=4)", "(8)", "*8", "(kind = selected_int_kind(8))", "(kind=kind(1))"]),
    ("real", [None, "(kind=8)", "(4)", "*8", "(kind=selected_real_kind(6, 37))", "(kind=kind(1.0d0))"]),
    ("logical", [None, "(kind=4)", "(1)"]),
    ("complex", [None, "(kind=8)", "*16"]),
    ("double precision", [None]),
    ("character", [None, "(len=10)", "(10)", "*10", "(len=10, kind=1)", "(len=2*(3+4))", "(kind=1, len=5)"]),
    ("type", ["(t_box)"]),
]
VALUES = {
    "integer": ["3", "-2", "2*(3+4)", "selected_int_kind(8)", "kind(1.0d0)", "huge(1)", "int(4.5)", "2**3"],
    "real": ["1.5", "1.0d0", "-2.5e-3", "real(3)", "4.0*atan(1.0)", "epsilon(1.0)"],
    "logical": [".true.", ".false.", ".not. .true."],
    "complex": ["(1.0, 2.0)", "cmplx(1.0, 2.0)"],
    "double precision": ["1.0d0", "dble(2)"],
    "character": ["'abc'", '"it''s"', "'a, b'", "'x' // 'y'", "repeat('a', 3)"],
}
ARR_VALUES = {"integer": ["[1, 2, 3]", "(/ 1, 2, 3 /)", "[2*1, 3-1, (4)]"], "real": ["[1.0, 2.0, 3.0]"]}


@st.composite
def var_decl_st(draw, idx, dummy=False):
    base, sels = draw(st.sampled_from(TYPES if not dummy else TYPES + [("class", ["(t_box)", "(*)"])]))
    sel = draw(st.sampled_from(sels))
    name = f"v{idx}_" + draw(st.sampled_from(["alp", "bet", "gam", "del", "kap"]))
    attrs = []
    dims = None
    kind = draw(st.integers(0, 9))
    is_param = not dummy and base in VALUES and kind <= 2
    arr = kind in (3, 4) or (is_param and draw(st.integers(0, 3)) == 0 and base in ARR_VALUES)
    if dummy:
        attrs.append(("intent", draw(st.sampled_from(["in", "out", "inout", "in out"]))))
        if draw(st.booleans()):
            attrs.append(("optional", None))
        if arr:
            dims = draw(st.sampled_from([":", ":,:", "3", "0:"]))
            if dims.startswith(":") and draw(st.booleans()):
                attrs.append(("contiguous", None))
        if base == "character" and sel in (None, "(len=10)", "(10)", "*10") and draw(st.booleans()):
            sel = draw(st.sampled_from(["(len=*)", "(*)", "*(*)"]))
        if base in ("integer", "real") and not arr and attrs[0][1] == "in" and draw(st.integers(0, 5)) == 0:
            attrs.append(("value", None))
    else:
        if is_param:
            attrs.append(("parameter", None))
            if arr:
                dims = "3"
        elif arr:
            dims = draw(st.sampled_from(["3", "2,2", "0:4", ":"]))
            if dims == ":":
                attrs.append((draw(st.sampled_from(["allocatable", "pointer"])), None))
            elif draw(st.booleans()):
                attrs.append(("target", None))
        elif kind == 5:
            attrs.append(("pointer", None))
        elif kind == 6:
            attrs.append(("save", None))
        elif kind == 7 and base not in ("type",):
            attrs.append(("allocatable", None))
        elif kind == 8 and base in ("integer", "real") and not arr:
            attrs.append((draw(st.sampled_from(["protected", "volatile"])), None))
        if draw(st.integers(0, 3)) == 0:
            attrs.append((draw(st.sampled_from(["public", "private"])), None))
    dim_as_attr = dims is not None and draw(st.booleans())
    if dim_as_attr:
        attrs.append(("dimension", dims))
    elif dims is not None and draw(st.integers(0, 2)) == 0:
        # DIMENSION attribute of the statement *and* an array-spec of the entity: the entity's wins
        deferred = ":" in dims and not any(c.isdigit() for c in dims)
        attrs.append(("dimension", draw(st.sampled_from([":", ":,:"] if deferred else ["7", "2,3", "0:1"]))))
    order = draw(st.permutations(range(len(attrs))))
    attrs = [attrs[i] for i in order]
    value = None
    if is_param:
        value = draw(st.sampled_from(ARR_VALUES[base] if arr else VALUES[base]))
        if base == "character" and sel is None:
            sel = "(len=*)"
    elif not dummy and base in VALUES and not arr and not any(a[0] in ("allocatable", "pointer") for a in attrs) and draw(st.integers(0, 4)) == 0:
        value = draw(st.sampled_from(VALUES[base]))
    ent_len = None
    if base == "character" and sel is None and not dummy and draw(st.booleans()):
        ent_len = "5"
    elif base == "character" and sel is not None and "*)" not in sel and "(*" not in sel and not dummy and not is_param and draw(st.integers(0, 2)) == 0:
        # a length selector of the statement *and* a length of the entity: the entity's wins, the kind stays
        ent_len = draw(st.sampled_from(["7", "(7)", "(2*3)"]))
    doc = None
    k = draw(st.integers(0, 5))
    if k <= 3:
        doc = (["pre", "post", "trail", "pre2"][k], f"doc of {name} " + draw(st.sampled_from(["alpha", "with, comma", "a :: b", "50% (x)", "#tag"])))
    uc = draw(st.sampled_from(["lower", "upper", "title"]))
    sp = draw(st.sampled_from(["", " "]))
    return {"name": name, "base": base, "sel": sel, "attrs": attrs, "dims": None if dim_as_attr else dims, "all_dims": dims, "value": value,
            "ent_len": ent_len, "doc": doc, "case": uc, "sp": sp, "dummy": dummy}


def render_decl(d, indent="  "):
    def cs(x):
        return x.upper() if d["case"] == "upper" else (x.title() if d["case"] == "title" and "(" not in x else x)

    head = cs(d["base"]) + (d["sel"] or "")
    for a, arg in d["attrs"]:
        head += "," + d["sp"] + cs(a) + (f"{d['sp']}({arg})" if arg is not None else "")
    ent = d["name"] + (f"({d['dims']})" if d["dims"] else "") + (f"*{d['ent_len']}" if d["ent_len"] else "")
    if d["value"] is not None:
        ent += f" = {d['value']}"
    line = f"{indent}{head} :: {ent}"
    lines = []
    doc = d["doc"]
    if doc and doc[0] == "pre":
        lines.append(f"{indent}!> {doc[1]}")
    if doc and doc[0] == "pre2":
        half = doc[1].split(" ", 2)
        lines.append(f"{indent}!> {' '.join(half[:2])}")
        lines.append(f"{indent}!! {half[2] if len(half) > 2 else 'more'}")
    if doc and doc[0] == "trail":
        line += f" !< {doc[1]}"
    lines.append(line)
    if doc and doc[0] == "post":
        lines.append(f"{indent}!! {doc[1]}")
    return lines


def norm(s):
    return re.sub(r"\s+", "", s).upper()


def expected_of(d):
    typ = norm(d["base"])
    sel = norm(d["sel"] or "")
    if d["ent_len"] and not d["sel"]:
        sel = sel + "*" + d["ent_len"]
    if d["base"] in ("type", "class"):
        typ, sel = norm(d["base"]), norm(d["sel"])
    attrs = set()
    for a, arg in d["attrs"]:
        if a == "intent":
            arg = arg.replace(" ", "")
        if a == "dimension" and d["dims"]:
            continue  # overridden by the entity's own array-spec
        attrs.add(norm(a) + (f"({norm(arg)})" if arg is not None else ""))
    if d["dims"]:
        attrs.add(f"DIMENSION({norm(d['dims'])})")
    doc = None
    if d["doc"]:
        doc = d["doc"][1]
        if d["doc"][0] == "pre2":
            half = d["doc"][1].split(" ", 2)
            doc = " ".join(half[:2]) + "\n" + (half[2] if len(half) > 2 else "more")
    return {"type": typ, "sel": sel, "attrs": attrs, "name": d["name"], "value": None if d["value"] is None else " ".join(d["value"].split()),
            "doc": doc, "is_param": any(a == "parameter" for a, _ in d["attrs"])}


def split_top(s, sep=","):
    out, depth, cur, q = [], 0, "", None
    for c in s:
        if q:
            cur += c
            if c == q:
                q = None
            continue
        if c in "'\"":
            q = c
        if c in "([":
            depth += 1
        if c in ")]":
            depth -= 1
        if c == sep and depth == 0:
            out.append(cur)
            cur = ""
        else:
            cur += c
    out.append(cur)
    return out


def parse_hover(value):
    """-> (code lines, docs text)"""
    m = re.match(r"```\w*\n(.*?)\n```(?:\n-----\n(.*))?$", value, re.S)
    if not m:
        return None, None
    return m.group(1).split("\n"), m.group(2)


def parse_decl_line(line):
    if " :: " not in line:
        return None
    head, ent = line.split(" :: ", 1)
    parts = [p.strip() for p in split_top(head)]
    tm = re.match(r"^(DOUBLE\s*PRECISION|DOUBLE\s*COMPLEX|[A-Za-z]+)(.*)$", parts[0].strip(), re.I)
    name, val = ent, None
    if " = " in ent:
        name, val = ent.split(" = ", 1)
    return {"type": norm(tm.group(1)), "sel": norm(tm.group(2)), "attrs": {norm(p) for p in parts[1:]}, "attr_list": [norm(p) for p in parts[1:]], "name": name.strip(),
            "value": val.strip() if val is not None else None}


def char_sel(sel):
    """(len, kind) a normalised CHARACTER selector stands for; None where not given, 'bad' where it is not a selector."""
    if not sel:
        return (None, None)
    if sel.startswith("*"):
        v = sel[1:]
        return (v[1:-1] if v.startswith("(") and v.endswith(")") else v, None)
    if not (sel.startswith("(") and sel.endswith(")")):
        return ("bad", sel)
    ln = kd = None
    for i, it in enumerate(split_top(sel[1:-1])):
        it = it.strip()
        if it.startswith("LEN="):
            ln = it[4:]
        elif it.startswith("KIND="):
            kd = it[5:]
        elif i == 0:
            ln = it
        else:
            kd = it
    return (ln, kd)


def compare_var(exp, got_line, docs, d):
    """-> list of (label, text)"""
    out = []
    g = parse_decl_line(got_line)
    src = render_decl(d)[-1 if not (d["doc"] and d["doc"][0] == "post") else -2].strip()
    if g is None:
        return [("hover:unparseable", f"hover line {got_line!r} for {src!r}")]
    if g["name"].lower() != exp["name"].lower():
        out.append(("hover:name", f"{src!r}: hover names {g['name']!r}"))
    if g["type"] != exp["type"]:
        out.append(("hover:type", f"{src!r}: type {g['type']!r} != {exp['type']!r}"))
    if d["ent_len"] and d["sel"]:
        want = char_sel(norm(d["sel"]))
        want = (norm(d["ent_len"].strip("()") if d["ent_len"].startswith("(") else d["ent_len"]), want[1])
        if char_sel(g["sel"]) != want:
            out.append(("hover:selector:entity-length-does-not-replace-the-statement's", f"{src!r}: selector {g['sel']!r} means (len, kind) = {char_sel(g['sel'])}, expected {want}"))
    elif g["sel"] != exp["sel"]:
        label = "hover:selector"
        if d["ent_len"]:
            label += ":entity-level-*len"
        elif d["sel"] and d["sel"].count("(") > 1:
            label += ":nested-parentheses"
        elif d["sel"] and " " in d["sel"]:
            label += ":blanks-in-selector"
        out.append((label, f"{src!r}: selector {g['sel']!r} != {exp['sel']!r}"))
    dup = sorted({a for a in g["attr_list"] if g["attr_list"].count(a) > 1 or sum(1 for b in g["attr_list"] if b.split("(")[0] == a.split("(")[0]) > 1})
    if dup:
        out.append(("hover:attributes:duplicated", f"{src!r}: hover {got_line!r} repeats {dup}"))
    if g["attrs"] != exp["attrs"]:
        miss, extra = exp["attrs"] - g["attrs"], g["attrs"] - exp["attrs"]
        unsup = {a for a in miss if a in ("VALUE", "PROTECTED", "VOLATILE")}
        label = "hover:attributes"
        if unsup and not extra and (miss - unsup) == set():
            label += ":unsupported-attribute-dropped(" + sorted(unsup)[0] + ")"
        elif unsup:
            label += ":attribute-list-cut-at-unsupported-attribute"
        elif any("INTENT(INOUT)" == a for a in miss) and any(a.startswith("INTENT(IN") for a in extra):
            label += ":intent-in-out-with-blank"
        out.append((label, f"{src!r}: attributes missing {sorted(miss)} extra {sorted(extra)}"))
    if exp["is_param"] or exp["value"] is not None:
        gv = None if g["value"] is None else " ".join(g["value"].split())
        if exp["is_param"] and gv != exp["value"]:
            label = "hover:parameter-value"
            v = exp["value"]
            if gv is not None and v.startswith(gv) and len(gv) < len(v):
                nxt = v[len(gv):].lstrip()[:1]
                label += ":truncated-at-" + ({"(": "parenthesis", "[": "bracket", ",": "comma", ":": "colon"}.get(nxt, "other"))
            elif gv is None:
                label += ":absent"
            out.append((label, f"{src!r}: value {gv!r} != {exp['value']!r}"))
    # documentation
    gd = None if docs is None else docs.strip()
    if (exp["doc"] or None) != (gd or None):
        nb = d.get("_neighbour_docs", "")
        label = "hover:documentation:" + (d["doc"][0] if d["doc"] else "none") + (":missing" if not gd else (":unexpected" if not exp["doc"] else ":different"))
        if nb:
            label = "hover:documentation:adjacent-blocks-merged-or-shifted(" + nb + ")"
        out.append((label, f"{src!r}: documentation {gd!r} != {exp['doc']!r}"))
    return out


@st.composite
def case_st(draw):
    n = draw(st.integers(3, 8))
    decls = [draw(var_decl_st(i)) for i in range(n)]
    # a multi-entity statement without documentation
    multi = None
    if draw(st.booleans()):
        multi = {"base": draw(st.sampled_from(["integer", "real"])), "names": ["m1_a", "m2_b", "m3_c"], "dims": draw(st.sampled_from([None, "3", "2,2"]))}
    procs = []
    for p in range(draw(st.integers(1, 3))):
        nd = draw(st.integers(0, 4))
        dummies = [draw(var_decl_st(100 * (p + 1) + j, dummy=True)) for j in range(nd)]
        for dd in dummies:
            if dd["doc"] and dd["doc"][0] in ("pre2",):
                dd["doc"] = ("pre", dd["doc"][1])
        kind = draw(st.sampled_from(["subroutine", "function"]))
        procs.append({"name": f"p{p}_" + draw(st.sampled_from(["run", "calc", "make"])), "kind": kind, "dummies": dummies,
                      "doc": draw(st.sampled_from([None, "does things", "computes, a lot"])), "result": draw(st.booleans()) if kind == "function" else False,
                      "kworder": draw(st.permutations(list(range(nd)))), "npos": draw(st.integers(0, max(0, nd - 1)))})
    return {"decls": decls, "multi": multi, "procs": procs, "blank_between": draw(st.booleans()), "comment_between": draw(st.booleans())}


def build(case, with_calls=True):
    """-> (text, expectations)"""
    lines = ["module c11m", "  implicit none", "  type :: t_box", "    integer :: w", "  end type t_box"]
    exp = []
    for d in case["decls"]:
        if case["blank_between"]:
            lines.append("")
        if case["comment_between"]:
            lines.append("  ! an ordinary comment")
        dl = render_decl(d)
        decl_line = len(lines) + [i for i, l in enumerate(dl) if " :: " in l and not l.strip().startswith("!")][0]
        lines += dl
        exp.append(("var", d, decl_line))
    if case["multi"]:
        m = case["multi"]
        ents = ", ".join(n + (f"({m['dims']})" if m["dims"] and i == 1 else "") for i, n in enumerate(m["names"]))
        lines.append(f"  {m['base']} :: {ents}")
        for i, n in enumerate(m["names"]):
            exp.append(("multi", {"name": n, "base": m["base"], "dims": m["dims"] if i == 1 else None}, len(lines) - 1))
    lines.append("contains")
    for p in case["procs"]:
        if p["doc"]:
            lines.append(f"  !> {p['doc']}")
        args = ", ".join(d["name"] for d in p["dummies"])
        head = f"  {p['kind']} {p['name']}({args})" + (" result(res)" if p["result"] else "")
        pline = len(lines)
        lines.append(head)
        dlines = {}
        for d in p["dummies"]:
            dl = render_decl(d, "    ")
            dlines[d["name"]] = len(lines) + [i for i, l in enumerate(dl) if " :: " in l and not l.strip().startswith("!")][0]
            lines += dl
        if p["kind"] == "function":
            lines.append(f"    integer :: {'res' if p['result'] else p['name']}")
            lines.append(f"    {'res' if p['result'] else p['name']} = 1")
        lines.append(f"  end {p['kind']} {p['name']}")
        exp.append(("proc", p, pline, dlines))
    if not with_calls:
        lines += ["end module c11m"]
        return "\n".join(lines) + "\n", exp, []
    # call sites
    lines.append("  subroutine caller()")
    lines.append("    integer :: ci, cr(3)")
    calls = []
    for p in case["procs"]:
        if p["kind"] != "subroutine":
            continue
        nd = len(p["dummies"])
        actuals = [["ci", "cr(1)", "f(ci, 2)", "'a, b'", "(ci)"][j % 5] for j in range(nd)]
        text = f"    call {p['name']}(" + ", ".join(actuals) + ")"
        calls.append(("positional", p, len(lines), text, actuals))
        lines.append(text)
        # the arguments with commas / parentheses first, simple ones after them
        cfirst = [["'a, b'", "f(ci, 2)", "ci", "cr(1)"][j % 4] for j in range(nd)]
        text = f"    call {p['name']}(" + ", ".join(cfirst) + ")"
        calls.append(("positional", p, len(lines), text, cfirst))
        lines.append(text)
        sfirst = [["'a, b'", "ci", "cr(1)", "3"][j % 4] for j in range(nd)]
        text = f"    call {p['name']}(" + ", ".join(sfirst) + ")"
        calls.append(("positional", p, len(lines), text, sfirst))
        lines.append(text)
        plain = [["ci", "cr(1)", "3", "cj"][j % 4] for j in range(nd)]
        text = f"    call {p['name']}(" + ", ".join(plain) + ")"
        calls.append(("plain", p, len(lines), text, plain))
        lines.append(text)
        if nd >= 2:
            # positional arguments that compare a variable named like another dummy: 'name == 1' is not 'name=...'
            cmpd = [f"{p['dummies'][(j + 1) % nd]['name']} == {j}" for j in range(nd)]
            text = f"    call {p['name']}(" + ", ".join(cmpd) + ")"
            calls.append(("plain", p, len(lines), text, cmpd))
            lines.append(text)
            kw = [f"{d['name']}={a}" for d, a in zip(p["dummies"], actuals)]
            kw = [kw[0]] + list(reversed(kw[1:]))
            text = f"    call {p['name']}(" + ", ".join(kw) + ")"
            calls.append(("keyword", p, len(lines), text, kw))
            lines.append(text)
            # keyword arguments in a drawn order (any dummy may come first), simple values; and a positional
            # prefix followed by the remaining dummies as keywords in a drawn order
            order = list(p.get("kworder") or range(nd))
            kw = [f"{p['dummies'][j]['name']}={plain[j]}" for j in order]
            text = f"    call {p['name']}(" + ", ".join(kw) + ")"
            calls.append(("keyword-permuted", p, len(lines), text, kw))
            lines.append(text)
            # keyword arguments whose values contain relational operators spelled with '=' at the call's own level
            rel = [["ci>=cj", "ci==3", "cr(1)/=2.0", "ci<=cj"][j % 4] for j in range(nd)]
            kw = [f"{p['dummies'][j]['name']}={rel[j]}" for j in order]
            text = f"    call {p['name']}(" + ", ".join(kw) + ")"
            calls.append(("keyword-relational-value", p, len(lines), text, kw))
            lines.append(text)
            npos = p.get("npos", 0)
            if npos:
                mixed = plain[:npos] + [f"{p['dummies'][j]['name']}={plain[j]}" for j in order if j >= npos]
                text = f"    call {p['name']}(" + ", ".join(mixed) + ")"
                calls.append(("positional-then-keyword", p, len(lines), text, mixed))
                lines.append(text)
    lines += ["  end subroutine caller", "end module c11m"]
    return "\n".join(lines) + "\n", exp, calls


_N = {"n": 0}


def validate(ctx, case, scratch):
    import subprocess

    _N["n"] += 1
    if _N["n"] % 6 or shutil.which("gfortran") is None:
        return
    text = build(case, with_calls=False)[0]
    d = os.path.join(scratch, "c11_gf")
    os.makedirs(d, exist_ok=True)
    p = os.path.join(d, "c11m.f90")
    with open(p, "w") as fh:
        fh.write(text)
    r = subprocess.run(["gfortran", "-fsyntax-only", "-std=gnu", "-J", d, p], capture_output=True, text=True)
    ctx.extra["declaration_modules_validated_with_gfortran"] = ctx.extra.get("declaration_modules_validated_with_gfortran", 0) + 1
    if r.returncode != 0:
        from harness.runner import HarnessError

        raise HarnessError("C11 generator produced invalid Fortran:\n" + r.stderr[:1500] + "\n" + text)


def check_case(ctx, case, scratch):
    validate(ctx, case, scratch)
    text, exp, calls = build(case)
    root = os.path.join(scratch, "c11_ws")
    shutil.rmtree(root, ignore_errors=True)
    os.makedirs(root)
    path = os.path.join(root, "c11m.f90")
    with open(path, "w") as fh:
        fh.write(text)
    srv = Server(root=root, argv=ARGV)
    lines = text.split("\n")
    discs, seen = [], set()

    def add(label, what):
        if label not in seen:
            seen.add(label)
            discs.append(Disc(label, what))

    vars_ = [it[1] for it in exp if it[0] == "var"]
    for seq in [vars_] + [it[1]["dummies"] for it in exp if it[0] == "proc"]:
        for i, d in enumerate(seq):
            prev_ = seq[i - 1] if i > 0 else None
            next_ = seq[i + 1] if i + 1 < len(seq) else None
            tags = []
            if prev_ is not None and prev_["doc"] and prev_["doc"][0] in ("post", "trail"):
                tags.append("after-" + prev_["doc"][0] + "-doc")
            if next_ is not None and next_["doc"] and next_["doc"][0] in ("pre", "pre2"):
                tags.append("before-pre-doc")
            if d["doc"] and d["doc"][0] in ("pre", "pre2") and prev_ is not None and prev_["doc"] and prev_["doc"][0] in ("post", "trail"):
                tags.append("own-pre-follows-foreign-post")
            d["_neighbour_docs"] = "+".join(tags[:1]) if (d["doc"] or tags) and tags else ""
    for item in exp:
        if item[0] == "var":
            _, d, ln = item
            col = lines[ln].index(d["name"])
            resp, _ = srv.request("textDocument/hover", pos_params(path, ln, col + 1))
            e = expected_of(d)
            nt = sum(1 for a, arg in d["attrs"] if arg is not None) >= 2 or (d["sel"] or "").count("(") > 1 or bool(d["doc"])
            ctx.case(("var", render_decl(d)[-1]), nt, sample={"declaration": [l.strip() for l in render_decl(d)]} if nt and len(seen) == 0 else None,
                     classes=[f"type:{d['base']}"] + [f"attr:{a}" for a, _ in d["attrs"]] + ([f"doc:{d['doc'][0]}"] if d["doc"] else []))
            res = resp.get("result")
            if "error" in resp or not isinstance(res, dict):
                add("hover:none", f"hover on {d['name']} in {lines[ln].strip()!r} -> {str(resp.get('error', res))[:120]}")
                continue
            code, docs = parse_hover(res["contents"]["value"])
            if not code:
                add("hover:format", f"hover value {res['contents']['value']!r}")
                continue
            for label, what in compare_var(e, code[0], docs, d):
                add(label, what)
        elif item[0] == "multi":
            _, m, ln = item
            col = lines[ln].index(m["name"])
            resp, _ = srv.request("textDocument/hover", pos_params(path, ln, col + 1))
            res = resp.get("result")
            ctx.case(("multi", lines[ln], m["name"]), True, classes=["multi-entity"])
            if not isinstance(res, dict):
                add("hover:multi-entity:none", f"hover on {m['name']} in {lines[ln].strip()!r} -> {res}")
                continue
            code, docs = parse_hover(res["contents"]["value"])
            g = parse_decl_line(code[0]) if code else None
            want = {f"DIMENSION({norm(m['dims'])})"} if m["dims"] else set()
            if g is None or g["type"] != norm(m["base"]) or g["attrs"] != want or g["name"] != m["name"]:
                add("hover:multi-entity", f"{lines[ln].strip()!r}: hover on {m['name']} -> {code}")
        else:
            _, p, pline, dlines = item
            col = lines[pline].index(p["name"])
            resp, _ = srv.request("textDocument/hover", pos_params(path, pline, col + 1))
            res = resp.get("result")
            ctx.case(("proc", lines[pline]), len(p["dummies"]) >= 2, classes=[f"proc:{p['kind']}", f"dummies:{len(p['dummies'])}"])
            if not isinstance(res, dict):
                add("hover:procedure:none", f"hover on {p['name']} -> {res}")
                continue
            code, docs = parse_hover(res["contents"]["value"])
            m = re.match(r"^\s*(?:[A-Z ]*?)(SUBROUTINE|FUNCTION)\s+(\w+)\s*\(([^)]*)\)", code[0], re.I) if code else None
            want_args = [d["name"] for d in p["dummies"]]
            if not m or m.group(2).lower() != p["name"] or [a.strip().split("=")[0] for a in m.group(3).split(",") if a.strip()] != want_args:
                add("hover:procedure:signature", f"{lines[pline].strip()!r}: hover first line {code[0] if code else None!r}")
            else:
                decl_lines = [l for l in code[1:] if " :: " in l]
                got_names = [parse_decl_line(l.strip())["name"] for l in decl_lines]
                nres = 1 if p["kind"] == "function" else 0
                if got_names[: len(want_args)] != want_args:
                    add("hover:procedure:argument-declarations-order", f"{p['name']}: argument declarations {got_names} != {want_args}")
                else:
                    for d, l in zip(p["dummies"], decl_lines):
                        for label, what in compare_var(expected_of(d), l.strip(), None, dict(d, doc=None, _neighbour_docs="")):
                            if not label.startswith("hover:documentation"):
                                add(label.replace("hover:", "hover:procedure-argument:"), what)
            # procedure documentation first
            pd = (docs or "").split("\n**Parameters:**")[0].strip() if docs else ""
            if (p["doc"] or "") != pd.strip():
                add("hover:procedure:documentation", f"{p['name']}: documentation {pd!r} != {p['doc']!r}")
            for d in p["dummies"]:
                want = d["doc"][1] if d["doc"] else None
                got = None
                mm = re.search(r"`" + re.escape(d["name"]) + r"` (.*)", docs or "")
                if mm:
                    got = mm.group(1).strip()
                if (want or None) != (got or None):
                    add(("hover:documentation:adjacent-blocks-merged-or-shifted(" + d["_neighbour_docs"] + ")") if d.get("_neighbour_docs") else
                        "hover:procedure:argument-documentation:" + (d["doc"][0] if d["doc"] else "none"),
                        f"{p['name']}: documentation of argument {d['name']} {got!r} != {want!r}")
    # signature help
    for kind, p, ln, text, actuals in calls:
        base = text.index("(") + 1
        pos = base
        for ai, a in enumerate(actuals):
            cur = pos + max(1, len(a) // 2)
            if " == " in a and kind == "plain":
                cur = pos + len(a)  # past the comparison operator
            if kind not in ("positional", "plain") and "=" in a:
                # a keyword argument is identified by the text before the cursor: place the cursor in the value
                eq = a.index("=")
                cur = pos + eq + 1 + max(1, (len(a) - eq - 1) // 2)
                if kind == "keyword-relational-value":
                    cur = pos + len(a)  # at the end of the value, past the operator
            resp, _ = srv.request("textDocument/signatureHelp", pos_params(path, ln, cur))
            res = resp.get("result")
            is_kw = "=" in a and a.split("=")[0] in [d["name"] for d in p["dummies"]] and kind not in ("positional", "plain")
            want_idx = [d["name"] for d in p["dummies"]].index(a.split("=")[0]) if is_kw else ai
            ctx.case(("sig", text, ai), kind.startswith("keyword") or kind == "positional-then-keyword" or any(c in a for c in "(',"),
                     classes=[f"signature:{kind}"] + (["signature:keyword-names-first-dummy-not-first"] if is_kw and want_idx == 0 and ai > 0 else []))
            if not isinstance(res, dict) or not res.get("signatures"):
                in_literal = text[:cur].count("'") % 2 == 1
                if in_literal:
                    ctx.event("signature:cursor-inside-a-character-literal:no-answer(tolerated)")
                elif "(" in a and kind != "plain":
                    # one root cause whatever the argument style: the innermost open parenthesis is taken for the call
                    add("signature:positional:none", f"signatureHelp in {text.strip()!r} at argument {ai} -> {res}")
                else:
                    add(f"signature:{kind}:none", f"signatureHelp in {text.strip()!r} at argument {ai} -> {res}")
            else:
                sig = res["signatures"][0]
                labels = [pp["label"].split("=")[0] for pp in sig.get("parameters", [])]
                if labels != [d["name"] for d in p["dummies"]]:
                    add(f"signature:{kind}:parameters", f"{text.strip()!r}: parameters {labels}")
                elif res.get("activeParameter") != want_idx:
                    pr = actuals[: ai + 1]
                    why = "argument-contains-" + ("comma-in-string" if any("'" in x and "," in x for x in pr) and "'" in a else
                                                  ("parentheses" if any("(" in x and "," in x for x in pr) else
                                                   ("comma-in-string" if any("'" in x and "," in x for x in pr) else "plain")))
                    if kind in ("plain", "keyword-permuted", "positional-then-keyword", "keyword-relational-value"):
                        why = "plain-arguments"
                    add(f"signature:{kind}:active-parameter:{why}", f"{text.strip()!r} cursor in {a!r}: activeParameter {res.get('activeParameter')} != {want_idx}")
            pos += len(a) + 2
    shutil.rmtree(root, ignore_errors=True)
    return discs


def run(ctx):
    ctx.hyp(case_st(), lambda c: check_case(ctx, c, ctx.scratch), max_examples=ctx.n(150, 4000), collect=bool(os.environ.get("VERIF_COLLECT")))


def replay(ctx, case):
    sig = case.pop("signature", None) if isinstance(case, dict) else None
    if "hover_requests" in case:
        # model-free: a source text and [line, column, text that the hover must contain] triples
        root = os.path.join(ctx.scratch, "c11_replay")
        shutil.rmtree(root, ignore_errors=True)
        os.makedirs(root)
        path = os.path.join(root, "c11r.f90")
        with open(path, "w") as fh:
            fh.write(case["text"])
        srv = Server(root=root, argv=ARGV)
        out = []
        for ln, col, want in case["hover_requests"]:
            resp, _ = srv.request("textDocument/hover", pos_params(path, ln, col))
            res = resp.get("result")
            got = res["contents"]["value"] if isinstance(res, dict) else None
            if got is None or want not in got:
                out.append(Disc(sig or "hover:replay", f"hover at {ln}:{col} ({case['text'].splitlines()[ln].strip()!r}): {got!r} lacks {want!r}"))
        shutil.rmtree(root, ignore_errors=True)
        return out
    if "sig_requests" in case:
        # model-free: a source text and [line, column, expected activeParameter] triples
        root = os.path.join(ctx.scratch, "c11_replay")
        shutil.rmtree(root, ignore_errors=True)
        os.makedirs(root)
        path = os.path.join(root, "c11r.f90")
        with open(path, "w") as fh:
            fh.write(case["text"])
        srv = Server(root=root, argv=ARGV)
        out = []
        for ln, col, want in case["sig_requests"]:
            resp, _ = srv.request("textDocument/signatureHelp", pos_params(path, ln, col))
            res = resp.get("result")
            got = res.get("activeParameter") if isinstance(res, dict) else None
            if got != want:
                out.append(Disc(sig or "signature:replay", f"signatureHelp at {ln}:{col} ({case['text'].splitlines()[ln].strip()!r}): activeParameter {got} != {want}"))
        shutil.rmtree(root, ignore_errors=True)
        return out
    discs = check_case(ctx, case, ctx.scratch)
    return discs
