"""C16 — wire framing is byte-exact in both directions; file URIs round-trip.

Oracles (all against the independent codec in harness/lsp.py, never fortls's own reader):
  out   : whatever payload the server writes (write_response / write_error / send_notification)
          must be recovered exactly by a strict reader that trusts only Content-Length (bytes).
  in    : a correctly framed stream (1-5 messages back to back, Content-Length / Content-Type in
          either order, ASCII-escaped or raw UTF-8 bodies) delivered through a raw reader that
          returns Hypothesis-drawn chunk sizes, wrapped in io.BufferedReader like sys.stdin.buffer,
          must decode to exactly the messages sent.
  uri   : path_from_uri(path_to_uri(p)) == p and path_from_uri(Path(p).as_uri()) == p.
  L2    : the same through real pipes: python -m fortls with a non-ASCII workspace path,
          identifiers and comments; stdout must be nothing but exact frames.
"""
from __future__ import annotations

import io
import json
import os
import pathlib

from hypothesis import strategies as st

from harness import lsp
from harness.findings import Disc, exc_signature

PROPERTY = "C16"
LEVEL = "exploration"
SHARDS = {"quick": 8, "thorough": 16}
RULE = (
    "Hypothesis: (a) 1-5 JSON-RPC messages with recursive JSON params over all of Unicode except lone "
    "surrogates, framed by an independent writer with either header order and raw-UTF-8 or ASCII-escaped "
    "bodies, cut into drawn read-chunk sizes; (b) payloads written through the server's connection object; "
    "(c) absolute normalised paths with blanks, %, #, ?, +, ;, non-ASCII and astral characters; (d) L2 "
    "sessions over real pipes.  Non-trivial = payload has a non-ASCII character, or >=2 messages with "
    "Content-Type first, or a chunk boundary inside a multi-byte character; distinct by case hash."
)
ASSUMPTIONS = [
    "input streams are correctly framed per the LSP base protocol (Content-Length = body bytes, CRLF header lines)",
    "no lone surrogates in payload strings (not encodable as UTF-8)",
    "paths are absolute, normalised, and contain no symlinked prefix",
]

# ------------------------------------------------------------------ generators
uni = st.characters(blacklist_categories=("Cs",))
text_st = st.one_of(
    st.text(alphabet=uni, max_size=12),
    st.text(alphabet=st.sampled_from(list("abc /\\\"{}[]:,\r\n\t") + ["é", "ß", "λ", "中", " ", "\U0001F600", "\x00", "\x7f"]),
            max_size=16),
)
json_leaf = st.one_of(st.none(), st.booleans(), st.integers(-2**53, 2**53), st.floats(allow_nan=False, allow_infinity=False),
                      text_st)
json_st = st.recursive(json_leaf, lambda c: st.one_of(st.lists(c, max_size=4), st.dictionaries(text_st, c, max_size=4)),
                       max_leaves=12)


@st.composite
def message_st(draw):
    k = draw(st.integers(0, 3))
    m = {"jsonrpc": "2.0"}
    if k != 0:
        m["id"] = draw(st.one_of(st.integers(-5, 10**6), text_st))
    m["method"] = draw(st.one_of(st.sampled_from(["textDocument/hover", "x/y", "initialize", "$/cancelRequest"]), text_st))
    if draw(st.booleans()):
        m["params"] = draw(json_st)
    return m


@st.composite
def in_case_st(draw):
    msgs = draw(st.lists(message_st(), min_size=1, max_size=5))
    layout = [draw(st.sampled_from(["cl", "cl+ct", "ct+cl"])) for _ in msgs]
    raw = [draw(st.booleans()) for _ in msgs]
    chunks = draw(st.lists(st.integers(1, 40), min_size=1, max_size=30))
    return {"kind": "in", "msgs": msgs, "layout": layout, "raw_utf8": raw, "chunks": chunks}


@st.composite
def out_case_st(draw):
    ops = draw(st.lists(st.tuples(st.sampled_from(["response", "error", "notification"]),
                                  st.one_of(st.integers(-5, 10**6), text_st), json_st, text_st), min_size=1, max_size=4))
    return {"kind": "out", "ops": [list(o) for o in ops]}


frag_st = st.one_of(st.sampled_from(list("ab c%#?+;&=@:~'()[]!$,") + ["é", "中", "\U0001F600", "%20", "%2F"]),
                    st.characters(blacklist_categories=("Cs",), blacklist_characters="/\x00"))
comp_st = st.lists(frag_st, min_size=1, max_size=8).map("".join).filter(lambda s: s not in (".", ".."))


@st.composite
def uri_case_st(draw):
    comps = draw(st.lists(comp_st, min_size=1, max_size=4))
    return {"kind": "uri", "path": "/vroot_c16/" + "/".join(comps)}


case_st = st.one_of(in_case_st(), in_case_st(), out_case_st(), uri_case_st())


# ------------------------------------------------------------------ execution
class ChunkRaw(io.RawIOBase):
    """A raw stream that hands data out in the drawn chunk sizes (like a pipe would)."""

    def __init__(self, data: bytes, chunks):
        self.data, self.pos, self.chunks, self.i = data, 0, chunks, 0
        self.boundaries = []

    def readable(self):
        return True

    def readinto(self, b):
        if self.pos >= len(self.data):
            return 0
        n = min(len(b), self.chunks[self.i % len(self.chunks)], len(self.data) - self.pos)
        self.i += 1
        b[:n] = self.data[self.pos : self.pos + n]
        self.pos += n
        self.boundaries.append(self.pos)
        return n


def has_non_ascii(o) -> bool:
    return any(ord(c) > 127 for c in json.dumps(o, ensure_ascii=False))


def run_in(case):
    from fortls.jsonrpc import JSONRPC2Connection, ReadWriter

    data = b""
    for m, lay, raw in zip(case["msgs"], case["layout"], case["raw_utf8"]):
        data += lsp.frame(m, ct_first=(lay == "ct+cl"), content_type=(lay == "cl+ct"), ensure_ascii=not raw)
    rawio = ChunkRaw(data, case["chunks"])
    conn = JSONRPC2Connection(ReadWriter(io.BufferedReader(rawio, buffer_size=64), io.BytesIO()))
    got, discs = [], []
    feats = []
    if any(l == "ct+cl" for l in case["layout"]):
        feats.append("content-type-first")
    try:
        while len(got) <= len(case["msgs"]) + 1:
            got.append(conn.read_message())
    except EOFError:
        pass
    except Exception as e:
        label = "input:" + ("content-type-first:" if feats else "") + exc_signature(e)
        return [Disc(label, f"reader raised {type(e).__name__}: {e} after {len(got)} of {len(case['msgs'])} messages")], rawio
    if got != case["msgs"]:
        label = "input-mismatch" + (":content-type-first" if feats else "")
        discs.append(Disc(label, f"decoded {len(got)} messages != sent {len(case['msgs'])}: first diff "
                                 f"{next(((a, b) for a, b in zip(got, case['msgs']) if a != b), None)!r}"[:400]))
    return discs, rawio


def run_out(case):
    from fortls.jsonrpc import JSONRPC2Connection, ReadWriter

    out = io.BytesIO()
    conn = JSONRPC2Connection(ReadWriter(io.BytesIO(b""), out))
    exp = []
    try:
        for kind, rid, payload, s in case["ops"]:
            if kind == "response":
                conn.write_response(rid, payload)
                exp.append({"jsonrpc": "2.0", "id": rid, "result": payload})
            elif kind == "error":
                conn.write_error(rid, -32603, s, payload)
                e = {"code": -32603, "message": s}
                if payload is not None:
                    e["data"] = payload
                exp.append({"jsonrpc": "2.0", "id": rid, "error": e})
            else:
                conn.send_notification(s, payload)
                exp.append({"jsonrpc": "2.0", "method": s, "params": payload})
    except Exception as e:
        return [Disc("output:" + exc_signature(e), f"writer raised {type(e).__name__}: {e}")]
    got, errs = lsp.read_frames(out.getvalue())
    if errs:
        return [Disc("output-framing", f"independent reader: {errs[0]}")]
    if got != exp:
        return [Disc("output-mismatch", f"recovered {got!r} != written {exp!r}"[:400])]
    return []


def run_uri(case):
    from fortls.jsonrpc import path_from_uri, path_to_uri

    p = case["path"]
    discs = []
    try:
        u = path_to_uri(p)
        if not u.startswith("file:///") or any(ord(c) > 127 or c in ' #?"<>' for c in u):
            discs.append(Disc("uri-not-escaped", f"path_to_uri({p!r}) = {u!r} is not a valid file URI"))
        back = path_from_uri(u)
        if back != p:
            discs.append(Disc("uri-roundtrip", f"path_from_uri(path_to_uri({p!r})) = {back!r}"))
        back2 = path_from_uri(pathlib.PurePosixPath(p).as_uri())
        if back2 != p:
            discs.append(Disc("uri-roundtrip-foreign", f"path_from_uri(Path({p!r}).as_uri()) = {back2!r}"))
    except Exception as e:
        discs.append(Disc("uri:" + exc_signature(e), f"{type(e).__name__}: {e} for {p!r}"))
    return discs


def multibyte_split(data_boundaries, data: bytes) -> bool:
    for b in data_boundaries:
        if 0 < b < len(data) and (data[b] & 0xC0) == 0x80:
            return True
    return False


def oracle_factory(ctx):
    def oracle(case):
        k = case["kind"]
        if k == "in":
            discs, rawio = run_in(case)
            nonascii = has_non_ascii(case["msgs"])
            ctfirst2 = sum(1 for l in case["layout"] if l == "ct+cl") >= 1 and len(case["msgs"]) >= 2
            split = multibyte_split(rawio.boundaries, rawio.data)
            ctx.case(case, nonascii or ctfirst2 or split,
                     sample={"kind": "in", "n": len(case["msgs"]), "layout": case["layout"], "chunks": case["chunks"][:8],
                             "first": case["msgs"][0]},
                     classes=["in"] + (["in:non-ascii"] if nonascii else []) + (["in:ct-first-multi"] if ctfirst2 else [])
                     + (["in:multibyte-split"] if split else []))
            return discs
        if k == "out":
            nonascii = has_non_ascii(case["ops"])
            ctx.case(case, nonascii, sample=case, classes=["out"] + (["out:non-ascii"] if nonascii else []))
            return run_out(case)
        nonascii = has_non_ascii(case["path"])
        special = any(c in case["path"] for c in " %#?+;")
        ctx.case(case, nonascii or special, sample=case,
                 classes=["uri"] + (["uri:non-ascii"] if nonascii else []) + (["uri:special"] if special else []))
        return run_uri(case)

    return oracle


# ------------------------------------------------------------------ L2
L2_NAMES = ["café", "中文", "sp ace", "pct%41", "emoji\U0001F600", "plain"]


def l2_session(ctx, idx):
    """python -m fortls over real pipes, non-ASCII directory, identifiers and comments."""
    import shutil

    name = L2_NAMES[idx % len(L2_NAMES)]
    root = os.path.join(ctx.scratch, f"l2_{idx}", name)
    os.makedirs(root, exist_ok=True)
    ident = ["größe", "λvar", "normal_v"][idx % 3]
    src = (f"module m{idx}\n  !> doc ☃ {name} \U0001F600\n  integer :: {ident}\ncontains\n"
           f"  subroutine s_{idx}()\n    {ident} = 1 ! träiling\n  end subroutine\nend module\n")
    path = os.path.join(root, f"fäil{idx}.f90")
    with open(path, "w", encoding="utf-8") as f:
        f.write(src)
    uri = lsp.uri_of(path)
    msgs = [
        lsp.req(1, "initialize", {"rootPath": root}),
        lsp.note("textDocument/didOpen", {"textDocument": {"uri": uri}}),
        lsp.req(2, "textDocument/documentSymbol", {"textDocument": {"uri": uri}}),
        lsp.req(3, "textDocument/hover", lsp.pos_params(path, 2, 14)),
        lsp.req("str-é", "workspace/symbol", {"query": ""}),
        lsp.req(5, f"unknown/é\U0001F600", {"x": "中"}),
        lsp.req(6, "textDocument/definition", lsp.pos_params(path, 5, 5)),
        lsp.note("exit"),
    ]
    data = b"".join(lsp.frame(m, ct_first=(i % 2 == 1 and idx % 2 == 0), content_type=(i % 3 == 0), ensure_ascii=(i % 2 == 0))
                    for i, m in enumerate(msgs))
    rc, out, err = lsp.run_subprocess(data, cwd=root)
    discs = []
    frames, errs = lsp.read_frames(out)
    if errs:
        discs.append(Disc("l2:stdout-not-pure-frames", f"L2 stdout: {errs[0]}"))
    ids = [f.get("id") for f in frames if "id" in f and "method" not in f]
    if ids != [1, 2, 3, "str-é", 5, 6]:
        discs.append(Disc("l2:responses" + (":content-type-first" if idx % 2 == 0 else ""),
                          f"L2 response ids {ids!r}, rc={rc}, stderr tail {err[-300:]!r}"))
    else:
        by = {f["id"]: f for f in frames if "id" in f and "method" not in f}
        names = [s.get("name") for s in (by[2].get("result") or [])]
        if f"m{idx}" not in names or f"s_{idx}" not in names:
            discs.append(Disc("l2:symbols", f"documentSymbol names {names!r}"))
        for s in by[2].get("result") or []:
            if s["location"]["uri"] != uri:
                discs.append(Disc("l2:uri", f"symbol uri {s['location']['uri']!r} != {uri!r}"))
                break
        if "error" not in by[5] or by[5]["error"].get("code") != -32601 or "é\U0001F600" not in by[5]["error"].get("message", ""):
            discs.append(Disc("l2:echo", f"unknown-method error did not echo the method name intact: {by[5]!r}"))
        hv = by[3].get("result")
        if ident.isascii() and (not hv or ident not in json.dumps(hv, ensure_ascii=False).lower()):
            discs.append(Disc("l2:hover", f"hover on {ident!r}: {hv!r}"))
        d6 = by[6].get("result")
        if ident.isascii() and (not d6 or d6["uri"] != uri or d6["range"]["start"]["line"] != 2):
            discs.append(Disc("l2:definition", f"definition of {ident!r}: {d6!r}"))
    if rc != 0:
        discs.append(Disc("l2:exit-status", f"L2 exit status {rc}"))
    ctx.case({"l2": idx}, True, sample={"kind": "l2", "dir": name, "identifier": ident}, classes=["l2"])
    shutil.rmtree(os.path.join(ctx.scratch, f"l2_{idx}"), ignore_errors=True)
    return discs


def run(ctx):
    ctx.hyp(case_st, oracle_factory(ctx), max_examples=ctx.n(2500, 30000))
    n_l2 = ctx.n(1, 12)
    for i in range(n_l2):
        idx = ctx.shard * n_l2 + i
        ctx.check(l2_session(ctx, idx), {"kind": "l2", "idx": idx})


def replay(ctx, case):
    if case["kind"] == "in":
        return run_in(case)[0]
    if case["kind"] == "out":
        return run_out(case)
    if case["kind"] == "uri":
        return run_uri(case)
    return l2_session(ctx, case["idx"])
