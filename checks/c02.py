"""C02 — server-side document text equals the client's after any edit sequence.

Domain : initial documents x finite sequences of content changes (ranged / full / several per
         notification) whose ranges lie inside the current document; inserted text with LF,
         CRLF, CR, mixed, and ending in a line break.
Oracle : an LSP-conforming client model written from the specification (document = one
         string, position -> offset over lines split on \r\n|\n|\r, positions in UTF-16 code
         units, edit = slice replacement).  After every step the server's list of lines must
         equal the model's.
Levels : L0 FortranFile.apply_change directly; L1 a real LangServer fed didOpen/didChange
         (incremental sync on, and off with whole-document changes).
"""
from __future__ import annotations

import os
import re

from hypothesis import strategies as st
from hypothesis.stateful import RuleBasedStateMachine, initialize, precondition, rule

from harness.findings import Disc, exc_signature

PROPERTY = "C02"
LEVEL = "exploration"
SHARDS = {"quick": 8, "thorough": 16}
RULE = (
    "Hypothesis RuleBasedStateMachine: initial document (<=8 lines over an alphabet with Fortran "
    "text, blanks, tabs, quotes, &, !, #, non-ASCII BMP, astral characters and the non-LSP "
    "separators U+2028/U+0085/VT/FF) then <=25 steps of ranged_change / full_change / "
    "multi_change (and, at L1, save / discard-and-reopen) with ranges drawn inside the current model document; the server copy is "
    "compared with the client model after every step.  A history is non-trivial when it "
    "contains, after at least one earlier edit, a ranged edit that spans >=2 lines or inserts "
    "text ending in a line break; distinct by hash of (mode, initial text, op list)."
)
ASSUMPTIONS = [
    "client positions are UTF-16 code units as LSP 3.17 prescribes by default",
    "documented load normalisation (tab -> one blank, universal newlines) is applied to the initial client text only",
    "ranges satisfy start <= end and lie inside the current document (line < line count, character <= line length)",
]

LINE_SPLIT = re.compile(r"\r\n|\n|\r")

# ------------------------------------------------------------------ client model (oracle)


def u16len(s: str) -> int:
    return len(s.encode("utf-16-le")) // 2


def cp_to_u16(line: str, cp: int) -> int:
    return u16len(line[:cp])


def split_doc(text: str):
    return LINE_SPLIT.split(text)


def offset_of(text: str, line: int, ch_u16: int) -> int:
    """LSP position -> string offset; ch in UTF-16 units (clamped to line length per spec)."""
    pos, cur = 0, 0
    for m in LINE_SPLIT.finditer(text):
        if cur == line:
            break
        pos = m.end()
        cur += 1
    assert cur == line, "position outside document"
    end = LINE_SPLIT.search(text, pos)
    line_end = end.start() if end else len(text)
    u = 0
    i = pos
    while i < line_end and u < ch_u16:
        u += 2 if ord(text[i]) > 0xFFFF else 1
        i += 1
    return i


def client_apply(text: str, change: dict) -> str:
    if change.get("range") is None:
        return change["text"]
    r = change["range"]
    a = offset_of(text, r["start"]["line"], r["start"]["character"])
    b = offset_of(text, r["end"]["line"], r["end"]["character"])
    return text[:a] + change["text"] + text[b:]


# ------------------------------------------------------------------ executor


class Exec:
    """Runs a history against the real code and the model.  mode: L0 | L1inc | L1full."""

    def __init__(self, mode: str, init_text: str, scratch: str, suffix=".f90"):
        self.mode = mode
        self.n_edits = 0
        self.nontrivial = False
        self.astral_touched = False
        self.path = os.path.join(scratch, "c02_doc" + suffix)
        self.srv = None
        if mode == "L0":
            from fortls.parsers.internal.parser import FortranFile, splitlines

            self.client = init_text
            self.f = FortranFile(self.path)
            self.f.set_contents(split_doc(init_text))
        else:
            from harness.lsp import Server

            with open(self.path, "w", encoding="utf-8", newline="") as fh:
                fh.write(init_text)
            argv = ["--disable_autoupdate", "-n", "1"] + (["--incremental_sync"] if mode == "L1inc" else [])
            self.srv = Server(root=scratch, argv=argv)
            self.srv.did_open(self.path)
            self.f = self.srv.file(self.path)
            self.client = init_text.replace("\t", " ")
        # a document the server could not index at all is C03's business, not C02's
        self.dead = self.f is None
        self.tainted = False

    def server_lines(self):
        if self.srv is not None:
            self.f = self.srv.file(self.path)
        return None if self.f is None else list(self.f.contents_split)

    def compare(self, op):
        # tabs are turned into single blanks whenever the server (re)loads from disk (documented
        # normalisation, column-preserving), so lines are compared modulo tab == blank
        exp = [l.replace("\t", " ") for l in split_doc(self.client)]
        got = self.server_lines()
        if got is not None:
            got = [l.replace("\t", " ") for l in got]
        if got == exp and (self.f.nLines == len(exp)):
            if self.mode == "L0" and op is not None and self.f.hash is not None:
                return [Disc("hash-not-reset", "FortranFile.hash not reset by an edit", {"op": op})]
            return []
        return [Disc(classify(op, self.astral_touched), describe(op, exp, got), {"expected": exp, "got": got})]

    def initial_check(self):
        if self.dead:
            return []
        return self.compare(None)

    def apply(self, changes: list):
        """changes: list of LSP contentChange dicts (one notification)."""
        op = {"changes": changes}
        if self.dead or self.tainted:
            return []
        # model
        self.astral_touched = False
        for ch in changes:
            if ch.get("range") is not None:
                lines = split_doc(self.client)
                for key in ("start", "end"):
                    ln = lines[ch["range"][key]["line"]]
                    off = offset_of(ln, 0, ch["range"][key]["character"])
                    if any(ord(c) > 0xFFFF for c in ln[:off]):
                        self.astral_touched = True
                spans = ch["range"]["end"]["line"] > ch["range"]["start"]["line"]
                ends_nl = ch["text"][-1:] in ("\n", "\r")
                if self.n_edits >= 1 and (spans or ends_nl):
                    self.nontrivial = True
            self.client = client_apply(self.client, ch)
            self.n_edits += 1
        # real code
        try:
            if self.mode == "L0":
                for ch in changes:
                    self.f.hash = "stale-hash"
                    self.f.apply_change(ch)
            else:
                outs = self.srv.did_change(self.path, changes)
                for o in outs:
                    if o.get("method") == "window/showMessage" and "Could not apply" in str(o.get("params")):
                        return [Disc(classify(op, self.astral_touched, "rejected"),
                                     f"didChange rejected: {o['params'].get('message')}", {"op": op})]
        except Exception as e:
            return [Disc(exc_signature(e), f"apply_change raised {type(e).__name__}: {e}", {"op": op})]
        return self.compare(op)


    def sync(self, what):
        """L1 only: 'save' writes the client text to disk and sends didSave; 'reopen' discards the
        unsaved buffer (didClose, didOpen): the client then shows the file as it is on disk."""
        if self.dead or self.tainted:
            return []
        op = {"sync": what}
        try:
            if what == "save":
                with open(self.path, "w", encoding="utf-8", newline="") as fh:
                    fh.write(self.client)
                self.srv.did_save(self.path)
            elif what == "reopen-dirty":
                # the editor closes the document and opens it again with its unsaved buffer (hot exit / restored session):
                # the text of didOpen is the document, whatever the file on disk says
                self.srv.did_close(self.path)
                self.srv.did_open(self.path, text=self.client)
            else:
                self.srv.did_close(self.path)
                self.srv.did_open(self.path)
                with open(self.path, encoding="utf-8", newline="") as fh:
                    self.client = fh.read()
        except Exception as e:
            return [Disc(exc_signature(e), f"{what} raised {type(e).__name__}: {e}", {"op": op})]
        if self.srv.file(self.path) is None:
            self.dead = True
            return []
        return self.compare(op)


def classify(op, astral, kind="text-mismatch"):
    if op is None:
        return "initial-load-mismatch"
    if "sync" in op:
        return f"{kind}:after-{op['sync']}"
    feats = set()
    for ch in op["changes"]:
        if ch.get("range") is None:
            feats.add("full")
        else:
            feats.add("ranged")
            if ch["range"]["start"]["line"] != ch["range"]["end"]["line"]:
                feats.add("multiline-range")
        t = ch["text"]
        if t[-1:] in ("\n", "\r"):
            feats.add("text-ends-with-linebreak")
        elif LINE_SPLIT.search(t):
            feats.add("multiline-text")
    if astral:
        return kind + ":astral-char-before-position(utf16)"
    if len(op["changes"]) > 1:
        feats.add("multi-change")
    return kind + ":" + "+".join(sorted(feats))


def describe(op, exp, got):
    return f"after {op!r}: client lines {exp!r} != server lines {got!r}"[:600]


# ------------------------------------------------------------------ generators

SNIPS = ["program p", "end program", "integer :: i", "  x = x + 1", "subroutine s(a)", "end subroutine",
         "module m", "contains", "! comment", "#define X 1", "call s(i) &", "'it''s'", "if (a) then", "end if"]
CHARS = list("abxyz ()=,:&!'\"#%;019_") * 3 + ["\t", "\t", "\u00e9", "\u03bb", "\u2028", "\x85", "\x0b", "\x0c"]
ASTRAL = ["\U0001F600", "\U00010348"]


def line_st(astral=False):
    chars = CHARS + (ASTRAL * 3 if astral else [])
    return st.one_of(st.sampled_from(SNIPS), st.text(alphabet=st.sampled_from(chars), max_size=10))


sep_st = st.sampled_from(["\n", "\n", "\n", "\r\n", "\r"])


@st.composite
def doc_st(draw, max_lines=8, astral=False):
    lines = draw(st.lists(line_st(astral), min_size=0, max_size=max_lines))
    out = ""
    for i, ln in enumerate(lines):
        out += ln
        if i < len(lines) - 1 or draw(st.booleans()):
            out += draw(sep_st)
    return out


@st.composite
def insert_st(draw, astral=False):
    k = draw(st.integers(0, 9))
    if k == 0:
        return ""
    if k <= 3:
        return draw(line_st(astral))
    if k == 4:
        return draw(sep_st)
    return draw(doc_st(max_lines=3, astral=astral))


def draw_position(draw, lines, lo=None):
    """A position (line, cp, u16) inside the document, not before `lo` (line, cp)."""
    l0 = 0 if lo is None else lo[0]
    line = draw(st.integers(l0, len(lines) - 1))
    c0 = lo[1] if (lo is not None and line == lo[0]) else 0
    # bias towards line start / end
    L = len(lines[line])
    cp = draw(st.one_of(st.integers(c0, L), st.sampled_from([c0, L])))
    return line, cp


def draw_ranged(draw, client, astral=False):
    lines = split_doc(client)
    s = draw_position(draw, lines)
    kind = draw(st.integers(0, 5))
    if kind == 0:
        e = s
    elif kind == 1:
        e = (len(lines) - 1, len(lines[-1])) if draw(st.booleans()) else draw_position(draw, lines, s)
    else:
        e = draw_position(draw, lines, s)
    text = draw(insert_st(astral))
    # A lone CR meeting an LF across an edit boundary would fuse into one CRLF in a client that
    # keeps the document as a single string, and stay two breaks in a line-based client: both
    # are LSP-conforming, so that ambiguous corner is excluded by construction.
    a = offset_of(client, s[0], cp_to_u16(lines[s[0]], s[1]))
    b = offset_of(client, e[0], cp_to_u16(lines[e[0]], e[1]))
    if (text + client[b : b + 1]).startswith("\n") and client[:a].endswith("\r"):
        text = "x" + text
    if (client[:a] + text).endswith("\r") and client[b : b + 1] == "\n":
        text = text + "x"
    return {
        "range": {
            "start": {"line": s[0], "character": cp_to_u16(lines[s[0]], s[1])},
            "end": {"line": e[0], "character": cp_to_u16(lines[e[0]], e[1])},
        },
        "text": text,
    }


def make_machine(ctx):
    class EditMachine(RuleBasedStateMachine):
        def __init__(self):
            super().__init__()
            self.ex = None
            self.case = None

        @initialize(mode=st.sampled_from(["L0", "L0", "L0", "L1inc", "L1full"]), data=st.data(),
                    suffix=st.sampled_from([".f90", ".F90", ".f"]))
        def start(self, mode, data, suffix):
            if ctx.machine_expired():
                return
            self.astral = data.draw(st.integers(0, 11)) == 0
            text = data.draw(doc_st(astral=self.astral))
            self.case = {"mode": mode, "init": text, "suffix": suffix, "ops": []}
            self.ex = Exec(mode, text, ctx.scratch, suffix)
            ctx.machine_check(self.ex.initial_check(), self.case)

        def _step(self, changes):
            if self.ex is None or ctx.machine_expired():
                return
            self.case["ops"].append(changes)
            discs = self.ex.apply(changes)
            if discs:
                self.ex.tainted = True  # server and model have diverged: later steps say nothing new
            ctx.machine_check(discs, self.case)

        @precondition(lambda self: self.ex is not None and self.ex.mode != "L1full")
        @rule(data=st.data())
        def ranged_change(self, data):
            self._step([draw_ranged(data.draw, self.ex.client, self.astral)])

        @precondition(lambda self: self.ex is not None)
        @rule(data=st.data())
        def full_change(self, data):
            self._step([{"text": data.draw(doc_st(max_lines=5, astral=self.astral))}])

        @precondition(lambda self: self.ex is not None and self.ex.mode != "L1full")
        @rule(data=st.data(), n=st.integers(2, 4))
        def multi_change(self, data, n):
            client = self.ex.client
            changes = []
            for _ in range(n):
                if data.draw(st.integers(0, 7)) == 0:
                    ch = {"text": data.draw(doc_st(max_lines=3, astral=self.astral))}
                else:
                    ch = draw_ranged(data.draw, client, self.astral)
                client = client_apply(client, ch)
                changes.append(ch)
            self._step(changes)

        @precondition(lambda self: self.ex is not None and self.ex.mode != "L0")
        @rule(what=st.sampled_from(["save", "reopen", "reopen-dirty"]))
        def sync(self, what):
            if ctx.machine_expired():
                return
            self.case["ops"].append({"sync": what})
            discs = self.ex.sync(what)
            if discs:
                self.ex.tainted = True
            ctx.machine_check(discs, self.case)

        def teardown(self):
            if self.ex is None:
                return
            if not ctx.machine_shrinking():
                c = self.case
                ctx.case(
                    key=c,
                    nontrivial=self.ex.nontrivial and not self.ex.dead,
                    sample={"mode": c["mode"], "suffix": c["suffix"], "init": c["init"], "ops": c["ops"][:6],
                            "n_ops": len(c["ops"])},
                    classes=[f"mode:{c['mode']}", f"steps:{min(len(c['ops']), 20) // 5 * 5}+"]
                    + (["nontrivial"] if self.ex.nontrivial else [])
                    + (["skipped:not-loaded"] if self.ex.dead else [])
                    + (["cut-short-by-known-finding"] if self.ex.tainted else [])
                    + (["astral-alphabet"] if self.astral else []),
                )

    return EditMachine


def run(ctx):
    ctx.hyp_machine(make_machine(ctx), max_examples=ctx.n(250, 4000), steps=25, get_last=None)


def replay(ctx, case):
    ex = Exec(case["mode"], case["init"], ctx.scratch, case.get("suffix", ".f90"))
    discs = ex.initial_check()
    for changes in case["ops"]:
        if discs:
            break
        discs = ex.sync(changes["sync"]) if isinstance(changes, dict) else ex.apply(changes)
    return discs
