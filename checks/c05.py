"""C05 — go-to-definition follows Fortran's scoping and USE-association rules.

Domain : fmodel workspaces (1-3 files; USE chains and diamonds, re-export, ONLY lists with and
         without renames, PRIVATE decoys of the same spelling, local/host shadowing, derived types
         with EXTENDS, components, type-bound procedures, generic interfaces, ASSOCIATE, BLOCK),
         rendered under a drawn layout; every use-role occurrence of the occurrence table is a
         query, with the cursor at a drawn offset inside the identifier.
Oracle : textDocument/definition returns the declaration the model's reference scoping binds the
         occurrence to: same file, same line, start.character = column of the name.
"""
from __future__ import annotations

import json
import os

from hypothesis import strategies as st

from harness import fmodel, fws
from harness.findings import Disc
from harness.lsp import Server, pos_params

PROPERTY = "C05"
LEVEL = "exploration"
SHARDS = {"quick": 8, "thorough": 16}
RULE = (
    "Hypothesis fmodel programs (gfortran-validated on a sample) x every occurrence with a use role (expression "
    "operand, CALL target, type(t)/class(t)/extends(t), member of a % chain, ONLY entry, rename alias and remote "
    "name, binding target, module procedure name, visibility-statement name, END name) x cursor offset.  "
    "Non-trivial = the binding goes through USE with ONLY/rename/re-export, or through a host scope while a "
    "homonym exists elsewhere, or through an inherited component; distinct by (program hash, occurrence)."
)
ASSUMPTIONS = [
    "the reference scoping rules R1-R8 of DESIGN.md §2.3 (harness/fmodel.py); generator soundness cross-checked with gfortran -std=f2018 on every 10th program",
    "construct names are not queried (they have no declaration statement)",
]

QUERY_ROLES = {"use", "call", "typeref", "extends", "member", "only", "alias", "remote", "bindtarget", "modproc", "visref", "endname",
               "resultuse", "usemod", "decl"}


def expected_locs(o, decls, stmt_lines=None):
    """Acceptable (file, line, col) targets for occurrence o."""
    e = o.ent
    if o.role in ("resultuse", "resultdecl"):
        # the function name inside its own body is the result variable: its type declaration or the
        # function statement are both its declaration
        out = [decls[e.id]] if e.id in decls else []
        return out + ["resultdecl"]
    if e.id in decls:
        out = [decls[e.id]]
        # inside SELECT TYPE (x) the name x denotes the construct's associate entity: the SELECT TYPE statement is an
        # acceptable answer as well, and so are its type guard statements (fortls answers with column 0 of the guard)
        for d, heads in getattr(o.stmt, "seltype", ()):
            for so in heads:
                if d is e and stmt_lines is not None and id(so) in stmt_lines:
                    out.append(("line",) + tuple(stmt_lines[id(so)][:2]))
        return out
    return []


def check_program(ctx, prog, layout, offsets, scratch, roles=QUERY_ROLES):
    import dataclasses

    # C05 is about scoping; statement splitting / joining is C13's subject
    layout = dataclasses.replace(layout, split_every=0, join_every=0)
    r = fmodel.render(prog, layout)
    fws.gfortran_sample(ctx, r)
    root = os.path.join(scratch, "c05_ws")
    srv, _ = fws.start(r, root, open_files=False)
    decls = fws.decl_table(r)
    by_pos = {}
    for o in r.occs:
        by_pos[(o.file, o.line, o.col)] = o
    discs = []
    nq = nnt = 0
    fail_by_tok = {}
    for idx, o in enumerate(r.occs):
        if o.role not in roles or o.ent.kind == "construct":
            continue
        exp = expected_locs(o, decls, r.stmt_lines)
        if not exp:
            continue
        off = offsets[idx % len(offsets)] % len(o.text)
        path = os.path.join(root, o.file)
        resp, _ = srv.request("textDocument/definition", pos_params(path, o.line, o.col + off))
        nq += 1
        bp = fws.binding_path(o.scope, o.text) if o.role in ("use", "call", "typeref", "extends", "visref", "endname") else o.role
        hom = fws.homonyms(prog, o.ent, o.text)
        inherited = o.role == "member" and False
        nontrivial = bp.startswith(("use-only", "use-rename", "use-reexport")) or (bp.startswith("host") and hom) or \
            (o.role == "member" and o.ent.kind == "component" and any(t.parent_type is not None for t in prog.ents if t.kind == "type"))
        nnt += 1 if nontrivial else 0
        ctx.case((hash(tuple(sorted(r.files.items()))), o.file, o.line, o.col), bool(nontrivial),
                 sample={"file": o.file, "line": o.line, "col": o.col, "name": o.text, "role": o.role, "bound-via": bp,
                         "source_line": r.lines[o.file][o.line]} if (nontrivial and idx % 41 == 0) else None,
                 classes=[f"role:{o.role}", f"via:{bp}"] + (["homonym-exists"] if hom else []))
        if "error" in resp:
            discs.append(Disc(f"definition-error:{o.role}", f"definition on {o.text!r} ({o.file}:{o.line}:{o.col}) -> error {str(resp['error'])[:200]}",
                              {"query": [o.file, o.line, o.col + off]}))
            continue
        res = resp.get("result")
        got = None
        if isinstance(res, dict):
            got = (os.path.basename(res["uri"]), res["range"]["start"]["line"], res["range"]["start"]["character"])
        ok = False
        for e in exp:
            if e == "resultdecl":
                # any occurrence of the function's name on a declaration line inside the function counts
                if got is not None:
                    go = by_pos.get(got)
                    if go is not None and go.ent is o.ent and go.role in ("resultdecl", "decl"):
                        ok = True
            elif isinstance(e, tuple):
                if got is not None and got[:2] == e[1:3]:
                    ok = True
            elif got == (e.file, e.line, e.col):
                ok = True
        if ok:
            continue
        if got is None:
            outcome = "none"
        else:
            go = by_pos.get(got)
            if go is None:
                outcome = "wrong:not-an-identifier-position"
            elif go.ent is o.ent:
                outcome = f"wrong:other-occurrence-of-same-entity({go.role})"
            else:
                oe = go.ent
                priv = oe.scope is not None and oe.scope.kind == "module" and (oe.vis == "private" or (oe.vis is None and oe.scope.default_private)) \
                    and (o.scope is None or oe.scope.unit() is not o.scope.unit())
                outcome = "wrong:PRIVATE-entity-of-another-module" if priv else f"wrong:other-entity-same-spelling({oe.kind})"
                if not priv and o.scope is not None and fws.leak_through_private_module(o.scope, oe, name=o.text):
                    outcome = "wrong:entity-leaked-through-a-default-PRIVATE-module"
                elif o.scope is not None and fws.hidden_by_rename_list(o.scope, o.text, oe):
                    outcome = "wrong:name-hidden-by-a-rename-list-still-resolves-to-the-renamed-entity"
        label = f"def:{o.role}:{o.ent.kind}:via-{bp}:{outcome}"
        if outcome in ("wrong:entity-leaked-through-a-default-PRIVATE-module", "wrong:name-hidden-by-a-rename-list-still-resolves-to-the-renamed-entity"):
            label = "def:" + outcome
        bp_any = fws.binding_path(o.scope, o.text) if o.scope is not None and o.role in ("use", "call", "typeref", "extends", "visref", "alias") else ""
        if outcome == "none" and bp_any.startswith("use-rename-list-reexport"):
            # one merged (only-list, rename-map) record per module: when the module that holds the entity is also reached
            # by a path that does not carry the rename, the later path's map entry replaces the right one
            label = "def:rename-list-of-a-re-exported-entity:not-resolved"
        base_i = fmodel.chain_prev(o.stmt.toks, o.tok_i) if o.role == "member" else None
        if base_i is not None and (id(o.stmt), base_i) in fail_by_tok:
            # the base of this % chain was already bound wrongly: same root cause, same signature
            label = fail_by_tok[(id(o.stmt), base_i)]
        fail_by_tok[(id(o.stmt), o.tok_i)] = label
        if o.role == "remote":
            # one root cause: the name after '=>' in a USE rename clause is looked up as an ordinary name
            # of the current scope instead of in the named module
            label = "def:remote-name-in-use-rename-clause-not-resolved-in-the-module"
        e0 = exp[0] if exp[0] != "resultdecl" and not isinstance(exp[0], tuple) else None
        discs.append(Disc(label, f"definition on {o.text!r} at {o.file}:{o.line}:{o.col}+{off} ({r.lines[o.file][o.line].strip()[:80]!r}) "
                                 f"expected {(e0.file, e0.line, e0.col) if e0 else 'result declaration'} got {got}",
                          {"query": [o.file, o.line, o.col + off], "expected": [[e.file, e.line, e.col] for e in exp if e != "resultdecl" and not isinstance(e, tuple)],
                           "accept_resultdecl": "resultdecl" in exp}))
    return discs, r, nq


case_st = st.tuples(fmodel.program_st(), fmodel.layout_st, st.lists(st.integers(0, 30), min_size=3, max_size=7))


# hand-written programs for constructs the model does not generate references to; (signature, files, query, expected)
FIXED_PROGRAMS = [
    ("def:enumerator-not-indexed",
     {"f0.f90": "module m_enum\n  implicit none\n  enum, bind(c)\n    enumerator :: e_red = 4, e_blue\n  end enum\ncontains\n  subroutine s()\n"
                "    integer :: i\n    i = e_red + e_blue\n  end subroutine s\nend module m_enum\n"},
     ["f0.f90", 8, 9], [["f0.f90", 3, 18]]),
    ("def:enumerator-not-indexed",
     {"f0.f90": "module m_enum\n  implicit none\n  enum, bind(c)\n    enumerator :: e_red = 4, e_blue\n  end enum\nend module m_enum\n",
      "f1.f90": "program p\n  use m_enum, only: e_blue\n  implicit none\n  print *, e_blue\nend program p\n"},
     ["f1.f90", 3, 12], [["f0.f90", 3, 29]]),
]


def run(ctx):
    if ctx.shard == 0:
        for sig, files, query, expected in FIXED_PROGRAMS:
            case = {"files": files, "query": query, "expected": expected, "signature": sig}
            ctx.case(("fixed-program", json.dumps(files, sort_keys=True), tuple(query)), True, classes=["hand-written:" + sig.split(":")[1]])
            ctx.check(replay(ctx, case), case)

    def oracle(v):
        prog, layout, offsets = v
        discs, r, nq = check_program(ctx, prog, layout, offsets, ctx.scratch)
        ctx.extra["queries"] = ctx.extra.get("queries", 0) + nq
        for k, val in prog.stats.items():
            if val:
                ctx.event(f"programs-with:{k}")
        oracle.last_files = r.files
        return discs

    def case_of(v):
        import dataclasses

        prog, layout, offsets = v
        r = fmodel.render(prog, dataclasses.replace(layout, split_every=0, join_every=0))
        return {"files": r.files}

    ctx.hyp(case_st, oracle, max_examples=ctx.n(100, 1500), case_of=case_of, collect=bool(os.environ.get('VERIF_COLLECT')))
    for sig, v in ctx.violations.items():
        if isinstance(v.get("detail"), dict):
            v["case"].update(v["detail"])
        v["case"]["signature"] = sig


def replay(ctx, case):
    root = os.path.join(ctx.scratch, "c05_replay")
    import shutil

    shutil.rmtree(root, ignore_errors=True)
    os.makedirs(root)
    for n, t in case["files"].items():
        with open(os.path.join(root, n), "w", newline="") as fh:
            fh.write(t)
    srv = Server(root=root, argv=fws.ARGV)
    f, ln, col = case["query"]
    resp, _ = srv.request("textDocument/definition", pos_params(os.path.join(root, f), ln, col))
    res = resp.get("result")
    got = [os.path.basename(res["uri"]), res["range"]["start"]["line"], res["range"]["start"]["character"]] if isinstance(res, dict) else None
    if got in case.get("expected", []):
        return []
    if case.get("accept_resultdecl") and got is not None:
        return []
    return [Disc(case.get("signature", "def:replay-mismatch"), f"definition at {case['query']} -> {got}, expected {case.get('expected')}")]
