"""C04 — outline and workspace symbols mirror the program's block structure.

Domain : fmodel programs with nested constructs inside procedures, END statements in every spelling
         (END SUBROUTINE x, END  SUBROUTINE, ENDSUBROUTINE x, bare END, ENDDO, END DO name),
         procedures after CONTAINS two levels deep, rendered under drawn layouts; query strings:
         substrings of declared names in random case, random identifiers, "".
Oracle : from the model.  documentSymbol: for each program unit and each procedure / derived type /
         named interface declared directly in a unit exactly one entry with the LSP kind, the
         unit as container, start line = line of the opening statement, end line = line of its
         END; components and bindings once under their type; any entry that matches no model
         entity is a violation.  workspace/symbol: result == {units, direct members of modules}
         whose name contains the query case-insensitively, as a multiset of (name, container, uri,
         start line), non-decreasing by name.
"""
from __future__ import annotations

import dataclasses
import os
import shutil

from hypothesis import strategies as st

from harness import fmodel, fws
from harness.findings import Disc
from harness.lsp import Server, uri_of

PROPERTY = "C04"
LEVEL = "exploration"
SHARDS = {"quick": 8, "thorough": 16}
RULE = (
    "Hypothesis fmodel programs x layout (indent, keyword/identifier case, END spelling, blank/comment lines, line "
    "endings) x query strings.  Non-trivial = the program has >=1 block construct nested in a procedure nested in a "
    "unit, and >=2 units; distinct by (program, layout) hash."
)
ASSUMPTIONS = [
    "outline entries for entities nested deeper than one level inside a unit are not required (fortls lists only direct members)",
    "layouts without statement splitting/joining (C13/C14 cover those)",
]

KIND = {"module": 2, "program": 2, "subroutine": 12, "function": 12, "type": 5, "interface": 11}


def model_outline(prog, r):
    """file -> list of expected entries dict(name, kind, container, sline, eline, required)"""
    opens, closes = {}, {}
    for f in prog.files:
        for s in f.stmts:
            if s.opens is not None and not isinstance(s.opens, tuple):
                opens[s.opens.id] = r.stmt_lines[id(s)]
            if s.closes is not None and not isinstance(s.closes, tuple):
                closes[s.closes.id] = r.stmt_lines[id(s)]
    out = {}
    for e in prog.ents:
        if e.kind not in KIND or e.id not in opens:
            continue
        fname, sl, _ = opens[e.id]
        el = closes[e.id][1]
        if e.scope is None:
            container, required = None, True
        else:
            u = e.scope
            direct = u.parent is None
            container = u.ent.name if u.ent is not None else None
            required = direct
        out.setdefault(fname, []).append({"name": e.name, "kind": KIND[e.kind], "container": container, "sline": sl, "eline": el,
                                          "required": required, "ent": e})
    return out

# ------------------------------------------------------------------ submodule units (the reference model has none)
class _E:  # stands in for a model entity in messages and in the workspace-symbol member list
    def __init__(self, kind):
        self.kind, self.attrs = kind, {}


@st.composite
def submod_bundle_st(draw):
    """One extra file: a host module with separate-module-procedure interfaces, a submodule of it and a
    submodule of that submodule ('submodule (host:parent) name'), in drawn header spellings, END forms
    and contents.  -> {"lines": [...], "entries": [(name, kind, container, sline, eline, required)], "forms": [...]}"""
    lines, entries, forms = [], [], []

    def unit(kind, name, header, body, contains):
        sl = len(lines)
        lines.append(header)
        for b in body:
            b(name)
        if contains:
            lines.append("contains")
            for c in contains:
                c(name)
        ef = draw(st.sampled_from(["full", "full", "kind", "bare", "joined"]))
        forms.append(f"end-{ef}")
        lines.append({"full": f"end {kind} {name}", "kind": f"end {kind}", "bare": "end", "joined": f"end{kind} {name}"}[ef])
        entries.append((name, 2, None, sl, len(lines) - 1, True))

    def block(kind_no, opener, closer, inner=()):
        def emit(container):
            def go(name_):
                sl = len(lines)
                lines.append("  " + opener)
                for i in inner:
                    lines.append("    " + i)
                lines.append("  " + closer)
                return sl
            return go
        return emit

    def proc(kind, name, args="", pre="", extra=(), required=True):
        def go(container):
            sl = len(lines)
            res = f" result(r_{name})" if kind == "function" else ""
            lines.append(f"  {pre}{kind} {name}({args}){res}")
            if args:
                lines.append(f"    integer, intent(in) :: {args}")
            if kind == "function":
                lines.append(f"    integer :: r_{name}")
                if not pre.startswith("module") or container != "zq_host":
                    lines.append(f"    r_{name} = 1")
            for x in extra:
                lines.append("    " + x)
            lines.append(f"  end {kind} {name}")
            entries.append((name, 12, container, sl, len(lines) - 1, required))
        return go

    def typ(name):
        def go(container):
            sl = len(lines)
            lines.append(f"  type :: {name}")
            lines.append(f"    integer :: c_{name}")
            lines.append(f"  end type {name}")
            entries.append((name, 5, container, sl, len(lines) - 1, True))
            entries.append((f"c_{name}", None, name, sl + 1, sl + 1, False))
        return go

    def var(name):
        def go(container):
            lines.append(f"  integer :: {name}")
            entries.append((name, None, container, len(lines) - 1, len(lines) - 1, False))
        return go

    def iface(container):
        lines.append("  interface")
        sl = len(lines)
        lines.append("    module subroutine zq_work(a)")
        lines.append("      integer, intent(in) :: a")
        lines.append("    end subroutine zq_work")
        entries.append(("zq_work", None, None, sl, sl + 2, False))
        sl = len(lines)
        lines.append("    module function zq_get() result(r_zq_get)")
        lines.append("      integer :: r_zq_get")
        lines.append("    end function zq_get")
        entries.append(("zq_get", None, None, sl, sl + 2, False))
        lines.append("  end interface")

    unit("module", "zq_host", "module zq_host", [lambda n: lines.append("  implicit none"), var("zq_hv"), iface], [proc("subroutine", "zq_hp")] if draw(st.booleans()) else [])
    sp1 = draw(st.sampled_from(["submodule (zq_host) zq_s1", "submodule(zq_host) zq_s1", "submodule ( zq_host ) zq_s1", "SUBMODULE (ZQ_HOST) ZQ_S1"]))
    impl = draw(st.sampled_from(["module-sub", "module-procedure", "none"]))
    forms.append("impl-" + impl)
    c1 = []
    if impl == "module-sub":
        c1.append(proc("subroutine", "zq_work", args="a", pre="module "))
        c1.append(proc("function", "zq_get", pre="module "))
    elif impl == "module-procedure":
        def mp(container):
            sl = len(lines)
            lines.append("  module procedure zq_work")
            lines.append("    zq_hv = a")
            lines.append("  end procedure zq_work")
            entries.append(("zq_work", 12, container, sl, sl + 2, False))
        c1.append(mp)
    if draw(st.booleans()):
        c1.append(proc("subroutine", "zq_local1"))
    c1 = list(draw(st.permutations(c1)))
    unit("submodule", "zq_s1", sp1, [lambda n: lines.append("  implicit none")] + ([typ("zq_t1")] if draw(st.booleans()) else []) + ([var("zq_v1")] if draw(st.booleans()) else []), c1)
    if draw(st.integers(0, 3)) > 0:
        sp2 = draw(st.sampled_from(["submodule (zq_host:zq_s1) zq_s2", "submodule (zq_host : zq_s1) zq_s2", "submodule(zq_host:zq_s1)zq_s2",
                                    "submodule ( zq_host:zq_s1 ) zq_s2", "Submodule (zq_host:Zq_S1) Zq_S2"]))
        forms.append("nested:" + ("tight" if ")zq" in sp2 else ("spaced" if " : " in sp2 or "( " in sp2 else "plain")))
        c2 = [proc("function", "zq_f2")] + ([proc("subroutine", "zq_p2", args="k")] if draw(st.booleans()) else [])
        unit("submodule", "zq_s2", sp2, [lambda n: lines.append("  implicit none")] + ([typ("zq_t2")] if draw(st.booleans()) else []), list(draw(st.permutations(c2))))
    return {"lines": lines, "entries": entries, "forms": forms}


def add_bundle(r, layout, bundle):
    """Put the bundle into the rendered workspace as a file of its own (same source form and line ends)."""
    fixed = layout.fixed
    name = "zq_sub.f" if fixed else "zq_sub.f90"
    ls = [("      " + l) if fixed else l for l in bundle["lines"]]
    r.files[name] = layout.eol.join(ls) + layout.eol
    r.lines[name] = ls
    return name


def check_bundle(srv, root, fname, bundle, discs):
    resp, _ = srv.request("textDocument/documentSymbol", {"textDocument": {"uri": uri_of(os.path.join(root, fname))}})
    if "error" in resp:
        discs.append(Disc("documentSymbol:error", f"{fname}: {str(resp['error'])[:200]}", {"file": fname}))
        return
    got = resp.get("result") or []
    text = "\n".join(bundle["lines"])
    used = set()
    for (name, kind, container, sl, el, required) in bundle["entries"]:
        cands = [i for i, g in enumerate(got) if g["name"].lower() == name.lower() and g["location"]["range"]["start"]["line"] == sl]
        used.update(cands)
        if not required:
            continue
        what = "submodule" if bundle["lines"][sl].lower().lstrip().startswith("submodule") else {2: "module", 12: "procedure", 5: "type"}[kind]
        ok = [i for i in cands if got[i].get("kind") == kind]
        if len(ok) != 1:
            same = [(g["name"], g["kind"], g["location"]["range"]["start"]["line"]) for g in got if g["location"]["range"]["start"]["line"] == sl]
            discs.append(Disc(f"outline:submodule-bundle:{what}:listed-{len(ok)}-times", f"{fname}: {what} {name} (line {sl}: {bundle['lines'][sl].strip()!r}) expected once with kind {kind}; "
                              f"entries starting on that line: {same}", {"file": fname}))
            continue
        g = got[ok[0]]
        if g["location"]["range"]["end"]["line"] != el:
            discs.append(Disc(f"outline:submodule-bundle:{what}:end-line", f"{fname}: {what} {name} ends at line {g['location']['range']['end']['line']}, its END statement "
                              f"{bundle['lines'][el].strip()!r} is on line {el}", {"file": fname}))
        if (g.get("containerName") or "").lower() != (container or "").lower():
            discs.append(Disc(f"outline:submodule-bundle:{what}:container", f"{fname}: {what} {name} has container {g.get('containerName')!r}, expected {container!r}", {"file": fname}))
    for i, g in enumerate(got):
        if i not in used:
            ln = g["location"]["range"]["start"]["line"]
            discs.append(Disc("outline:entry-matches-no-declared-entity", f"{fname}: entry {g['name']!r} kind {g['kind']} at line {ln} "
                              f"({bundle['lines'][ln].strip()[:60] if ln < len(bundle['lines']) else '?'!r}) is not declared there", {"file": fname}))


def check_program(ctx, prog, layout, queries, scratch, bundle=None):
    layout = dataclasses.replace(layout, split_every=0, join_every=0)
    r = fmodel.render(prog, layout)
    fws.gfortran_sample(ctx, r)
    bname = add_bundle(r, layout, bundle) if bundle else None
    root = os.path.join(scratch, "c04_ws")
    srv, _ = fws.start(r, root, open_files=False)
    exp = model_outline(prog, r)
    decls = fws.decl_table(r)
    discs = []
    nested = prog.stats.get("constructs", 0) > 0
    nunits = len(prog.top_scopes)
    ctx.case(hash((tuple(sorted(r.files.items())),)), nested and nunits >= 2,
             sample={"files": {k: v[:500] for k, v in list(r.files.items())[:1]}, "end_style": layout.end_style, "units": nunits},
             classes=[f"end:{layout.end_style}", f"kw:{layout.kwcase}", f"units:{nunits}"] + (["constructs"] if nested else []))
    for fname in sorted(r.files):
        if fname == bname:
            check_bundle(srv, root, fname, bundle, discs)
            for fm in bundle["forms"]:
                ctx.event("submodule-bundle:" + fm)
            continue
        resp, _ = srv.request("textDocument/documentSymbol", {"textDocument": {"uri": uri_of(os.path.join(root, fname))}})
        if "error" in resp:
            discs.append(Disc("documentSymbol:error", f"{fname}: {str(resp['error'])[:200]}", {"file": fname}))
            continue
        got = resp.get("result") or []
        want = exp.get(fname, [])
        used = set()
        for w in want:
            cands = [i for i, g in enumerate(got) if g["name"].lower() == w["name"].lower() and g["location"]["range"]["start"]["line"] == w["sline"]
                     and g.get("kind") in (w["kind"],)]
            if len(cands) > 1 and w["required"]:
                discs.append(Disc(f"outline:duplicate:{w['ent'].kind}", f"{fname}: {w['name']} listed {len(cands)} times", {"file": fname}))
            if not cands:
                if w["required"]:
                    near = [g for g in got if g["name"].lower() == w["name"].lower()]
                    why = "absent" if not near else ("kind" if near[0]["location"]["range"]["start"]["line"] == w["sline"] else "start-line")
                    discs.append(Disc(f"outline:missing:{w['ent'].kind}:{why}", f"{fname}: expected {w['ent'].kind} {w['name']} kind {w['kind']} lines "
                                      f"{w['sline']}-{w['eline']} container {w['container']}; same-name entries: {[(g['kind'], g['location']['range']) for g in near]}",
                                      {"file": fname}))
                continue
            g = got[cands[0]]
            used.add(cands[0])
            gl = g["location"]["range"]
            if gl["end"]["line"] != w["eline"]:
                discs.append(Disc(f"outline:end-line:{w['ent'].kind}:end-style-{layout.end_style}",
                                  f"{fname}: {w['ent'].kind} {w['name']} ends at line {gl['end']['line']}, its END statement is on line {w['eline']} "
                                  f"({r.lines[fname][w['eline']].strip()!r})", {"file": fname}))
            gc = g.get("containerName")
            if (gc or "").lower() != (w["container"] or "").lower() and w["required"]:
                discs.append(Disc(f"outline:container:{w['ent'].kind}", f"{fname}: {w['name']} has container {gc!r}, expected {w['container']!r}", {"file": fname}))
        # members under their type, everything else must correspond to a declared entity
        for i, g in enumerate(got):
            if i in used:
                continue
            ln = g["location"]["range"]["start"]["line"]
            here = [o for o in r.occs if o.file == fname and o.line == ln and o.role == "decl" and o.text.lower() == g["name"].lower()]
            if not here:
                discs.append(Disc("outline:entry-matches-no-declared-entity", f"{fname}: entry {g['name']!r} kind {g['kind']} at line {ln} "
                                  f"({r.lines[fname][ln].strip()[:60] if ln < len(r.lines[fname]) else '?'!r}) is not declared there", {"file": fname}))
                continue
            e = here[0].ent
            if e.kind in ("component", "binding"):
                t = e.scope.ent
                if (g.get("containerName") or "").lower() != t.name.lower():
                    discs.append(Disc("outline:member-container", f"{fname}: member {g['name']} listed under {g.get('containerName')!r}, not under its type {t.name!r}",
                                      {"file": fname}))
        # each component / binding of a type declared directly in a unit: exactly once
        for w in want:
            if w["ent"].kind == "type" and w["required"]:
                for m in w["ent"].members:
                    n = sum(1 for g in got if g["name"].lower() == m.name.lower() and (g.get("containerName") or "").lower() == w["name"].lower())
                    if n != 1:
                        discs.append(Disc(f"outline:type-member-listed-{n}-times", f"{fname}: {m.kind} {m.name} of type {w['name']} listed {n} times", {"file": fname}))
    # workspace/symbol
    members = []
    for sc in prog.top_scopes:
        u = sc.ent
        fname = [f.name for f in prog.files if u in f.units][0]
        members.append((u.name, None, fname, decls[u.id].line if u.id in decls else None, u))
        if u.kind == "module":
            for e in sc.declared.values():
                if e.id in decls:
                    members.append((e.name, u.name, fname, None, e))
    opt_members = set()
    if bundle:
        for (name, kind, container, sl, el, required) in bundle["entries"]:
            if container in (None, "zq_host", "zq_s1", "zq_s2") and not (container is None and kind is None):
                m = (name, container, bname, None, _E("bundle"))
                # units and members of the host module are indexed like any module's; members of a submodule: either way
                (members.append(m) if container in (None, "zq_host") else opt_members.add((name.lower(), container.lower(), bname)))
    for q in queries:
        resp, _ = srv.request("workspace/symbol", {"query": q})
        if "error" in resp:
            discs.append(Disc("workspace-symbol:error", f"query {q!r}: {str(resp['error'])[:200]}", {"query": q}))
            continue
        got = resp.get("result") or []
        names = [g["name"] for g in got]
        if names != sorted(names):
            discs.append(Disc("workspace-symbol:not-sorted", f"query {q!r}: names not sorted: {names[:12]}", {"query": q}))
        want = sorted((m[0].lower(), (m[1] or "").lower(), m[2]) for m in members if q.lower() in m[0].lower())
        have = sorted((g["name"].lower(), (g.get("containerName") or "").lower(), os.path.basename(g["location"]["uri"])) for g in got)
        # members of a main program are tolerated (fortls treats a program like a module here); they must at
        # least be declared entities of that program whose name contains the query
        progs = {sc.ent.name.lower(): sc for sc in prog.top_scopes if sc.ent.kind == "program"}
        pnames = {pn: {e.name.lower() for e in prog.ents if e.scope is not None and e.scope.unit() is sc} for pn, sc in progs.items()}
        have = [h for h in have if not (h[1] in progs and h[0] in pnames[h[1]] and q.lower() in h[0])]
        # a prototype inside an (unnamed) abstract interface block is not declared *directly* in the module: either way
        protos = {(m[0].lower(), (m[1] or "").lower(), m[2]) for m in members if m[4].kind == "proto" or m[4].attrs.get("interface_body")}
        want = [w for w in want if w not in protos]
        have = [h for h in have if h not in protos and h not in opt_members]
        if want != have:
            miss = [w for w in want if w not in have]
            extra = [h for h in have if h not in want]
            label = "workspace-symbol:" + ("missing" if miss else "") + ("+" if miss and extra else "") + ("extra" if extra else "")
            if not miss and not extra:
                label = "workspace-symbol:multiplicity"
            if extra and all(x[0].startswith("#") for x in extra) and not miss:
                label = "workspace-symbol:placeholder-name"
            discs.append(Disc(label, f"query {q!r}: missing {miss[:4]} extra {extra[:4]}", {"query": q}))
    return discs, r


@st.composite
def case_st(draw):
    if draw(st.integers(0, 3)) == 0:
        prog = draw(fmodel.program_st(nfiles=(1, 1)))
        layout = draw(fmodel.layout_st)
        return prog, layout, ["", "zq", "ZQ_S", "work", draw(st.sampled_from(["s1", "s2", "_t", "host", "q_"]))], draw(submod_bundle_st())
    prog = draw(fmodel.program_st())
    layout = draw(fmodel.layout_st)
    names = sorted({e.name for e in prog.ents if e.kind in ("module", "program", "variable", "subroutine", "function", "type", "interface")})
    qs = [""]
    for _ in range(draw(st.integers(2, 4))):
        n = draw(st.sampled_from(names))
        a = draw(st.integers(0, len(n) - 1))
        b = draw(st.integers(a + 1, len(n)))
        sub = n[a:b]
        qs.append(draw(st.sampled_from([sub, sub.upper(), sub.capitalize()])))
    qs.append(draw(st.sampled_from(["zzzz", "_", "m_", "t_", "G_"])))
    return prog, layout, qs, None


def run(ctx):
    def oracle(v):
        prog, layout, qs, bundle = v
        return check_program(ctx, prog, layout, qs, ctx.scratch, bundle)[0]

    def case_of(v):
        prog, layout, qs, bundle = v
        layout = dataclasses.replace(layout, split_every=0, join_every=0)
        r = fmodel.render(prog, layout)
        case = {"files": r.files, "queries": qs}
        if bundle:
            bname = add_bundle(r, layout, bundle)
            case["outline"] = {bname: "required-only"}
            case["required"] = {bname: [[n.lower(), k, (c or "").lower(), sl, el] for (n, k, c, sl, el, req) in bundle["entries"] if req]}
        return case

    ctx.hyp(case_st(), oracle, max_examples=ctx.n(160, 3000), case_of=case_of, collect=bool(os.environ.get("VERIF_COLLECT")))
    for sig, v in ctx.violations.items():
        v["case"]["signature"] = sig
        v["case"]["what"] = v["what"]


def replay(ctx, case):
    """Model-free structural replay: the outline of the saved files must satisfy the invariants that do
    not need the model (every entry sits on a line that mentions its name, start <= end, container
    exists), and the saved discrepancy text is re-evaluated where it is self-contained."""
    root = os.path.join(ctx.scratch, "c04_replay")
    shutil.rmtree(root, ignore_errors=True)
    os.makedirs(root)
    for n, t in case["files"].items():
        with open(os.path.join(root, n), "w", newline="") as fh:
            fh.write(t)
    srv = Server(root=root, argv=fws.ARGV)
    discs = []
    import re

    for n, t in case["files"].items():
        lines = re.split(r"\r\n|\n|\r", t)
        resp, _ = srv.request("textDocument/documentSymbol", {"textDocument": {"uri": uri_of(os.path.join(root, n))}})
        for g in resp.get("result") or []:
            rg = g["location"]["range"]
            sl, el = rg["start"]["line"], rg["end"]["line"]
            if sl >= len(lines) or g["name"].lower() not in lines[sl].lower():
                discs.append(Disc(case.get("signature", "outline:replay"), f"{n}: entry {g['name']} at line {sl} not on a line naming it"))
            elif g["kind"] in (2, 12, 5, 11) and el >= sl and not re.match(r"\s*(\d+\s+)?end(?!\s*file)", lines[el], re.I) and el != sl:
                discs.append(Disc(case.get("signature", "outline:replay"), f"{n}: entry {g['name']} ends at line {el} which is not an END statement: {lines[el]!r}"))
        if n in case.get("required", {}):
            have = [[g["name"].lower(), g["kind"], (g.get("containerName") or "").lower(), g["location"]["range"]["start"]["line"],
                     g["location"]["range"]["end"]["line"]] for g in resp.get("result") or []]
            for w in case["required"][n]:
                if have.count(w) != 1:
                    discs.append(Disc(case.get("signature", "outline:replay"), f"{n}: expected entry {w} listed {have.count(w)} times; on that line: {[h for h in have if h[3] == w[3]]}"))
        elif "outline" in case and n in case["outline"]:
            have = sorted([g["name"].lower(), g["kind"], (g.get("containerName") or "").lower(), g["location"]["range"]["start"]["line"],
                           g["location"]["range"]["end"]["line"]] for g in resp.get("result") or [])
            if have != sorted(case["outline"][n]):
                discs.append(Disc(case.get("signature", "outline:replay"), f"{n}: outline {have} != expected {sorted(case['outline'][n])}"))
    for q in case.get("queries", []):
        resp, _ = srv.request("workspace/symbol", {"query": q})
        names = [g["name"] for g in resp.get("result") or []]
        if names != sorted(names) or any(q.lower() not in x.lower() for x in names):
            discs.append(Disc(case.get("signature", "workspace-symbol:replay"), f"query {q!r}: {names[:10]}"))
    return discs
