"""C18 — exactly the configured source files are indexed at start-up.

Domain : Hypothesis-drawn directory trees (depth <= 4; default suffixes in both documented cases,
         look-alikes .f9 .f90.bak .ff .F900 'f90' without dot, configured extras; directories named
         like sources; empty directories) x source_dirs / excl_paths (literal relative, './x',
         absolute, globs with *, ?, ** as a whole component) x incl_suffixes x excl_suffixes,
         each option given either by configuration file or on the command line.
Oracle : harness/fsmodel.py (independent re-implementation of the documented rule with its own
         glob expander): expected set == set(server.workspace) == files of the modules returned
         by workspace/symbol "" (every generated file declares a uniquely named module).
"""
from __future__ import annotations

import json
import os
import shutil

from hypothesis import strategies as st

from harness import fsmodel
from harness.findings import Disc, exc_signature
from harness.lsp import Server

PROPERTY = "C18"
LEVEL = "exploration"
SHARDS = {"quick": 8, "thorough": 16}
RULE = (
    "Hypothesis: directory tree (<=10 directories, <=24 files over documented suffixes, look-alike suffixes and "
    "configured extras) x source_dirs/excl_paths patterns (literal, ./relative, absolute, *, ?, **) x incl/excl "
    "suffix lists x channel (file or CLI) per option.  Non-trivial = at least one file excluded by each of two "
    "different mechanisms (suffix rule, excl_paths, excl_suffixes, not in a source dir) and >=1 nested source "
    "directory indexed; distinct by (tree, options)."
)
ASSUMPTIONS = [
    "no symbolic links, no dot-directories; globs are well-formed; a configured source_dirs list never expands to the root alone "
    "(fortls treats that as 'not configured' and scans recursively)",
    "suffix matching is literal and case-sensitive as documented; mixed-case forms such as .fOr are not generated",
]

DIRNAMES = ["sub", "deep", "lib", "x", "dir.f90", "s1b", "Sub", "ex", "src"]
BASES = ["a", "b", "mod_c", "d_skip", "e.x", "F"]
SUFFIXES = (fsmodel.DEFAULT_SUFFIXES * 2) + [".f9", ".f90.bak", ".ff", ".F900", "f90", ".inc", ".h", "inc", ".FYP", ".fyp", ".txt", ".f90x", ".fo", ".For"]
# .For / mixed case: accepted by fortls' regex, not among the documented forms -> never generated as a *file* suffix
SUFFIXES = [s for s in SUFFIXES if s not in (".For",)]


@st.composite
def tree_st(draw):
    dirs = {""}
    for _ in range(draw(st.integers(0, 9))):
        parent = draw(st.sampled_from(sorted(dirs)))
        if parent.count("/") >= 3:
            continue
        name = draw(st.sampled_from(DIRNAMES))
        dirs.add((parent + "/" + name).lstrip("/"))
    files = set()
    for _ in range(draw(st.integers(1, 24))):
        d = draw(st.sampled_from(sorted(dirs)))
        fn = draw(st.sampled_from(BASES)) + draw(st.sampled_from(SUFFIXES))
        p = (d + "/" + fn).lstrip("/")
        if p not in dirs:
            files.add(p)
    return sorted(dirs - {""}), sorted(files)


def pattern_st(dirs, files, for_excl):
    pool = list(dirs) or ["sub"]
    lits = st.sampled_from(pool)
    gl = st.sampled_from(["*", "**", "*/deep", "sub/*", "sub/**", "**/deep", "s?b", "*/*", "lib/**", "**/x", "s*", "[ls]*", "ex/**", "src/*"])
    opts = [lits, lits.map(lambda p: "./" + p), lits.map(lambda p: "$ROOT/" + p), gl, gl.map(lambda g: "$ROOT/" + g),
            st.sampled_from(["nonexistent", "no/such/**"])]
    if for_excl and files:
        opts.append(st.sampled_from(list(files)))
        opts.append(st.sampled_from(["*.f90", "sub/*.F90", "**/*.f90"]))
    return st.one_of(*opts)


@st.composite
def case_st(draw):
    dirs, files = draw(tree_st())
    opts, chan = {}, {}
    if draw(st.integers(0, 2)) != 0:
        opts["source_dirs"] = draw(st.lists(pattern_st(dirs, files, False), min_size=1, max_size=3, unique=True))
    if draw(st.integers(0, 2)) != 0:
        opts["excl_paths"] = draw(st.lists(pattern_st(dirs, files, True), min_size=1, max_size=3, unique=True))
    if draw(st.integers(0, 2)) == 0:
        opts["incl_suffixes"] = draw(st.lists(st.sampled_from([".inc", ".h", "inc", ".FYP", ".f90.bak", ".txt"]), min_size=1, max_size=3, unique=True))
    if draw(st.integers(0, 2)) == 0:
        opts["excl_suffixes"] = draw(st.lists(st.sampled_from(["_skip.f90", ".F90", "x.f", ".f90", "_skip.F", "a.f90", ".inc"]), min_size=1, max_size=2, unique=True))
    for k in opts:
        chan[k] = draw(st.sampled_from(["file", "file", "cli"]))
    return {"dirs": dirs, "files": files, "opts": opts, "channel": chan, "cfgname": draw(st.sampled_from([".fortlsrc", ".fortls.json", ".fortls"]))}


def materialise(case, root):
    shutil.rmtree(root, ignore_errors=True)
    os.makedirs(root)
    for d in case["dirs"]:
        os.makedirs(os.path.join(root, d), exist_ok=True)
    modfile = {}
    for i, f in enumerate(case["files"]):
        p = os.path.join(root, f)
        with open(p, "w") as fh:
            fh.write(f"module vmod_{i}\n  integer :: v{i}\nend module vmod_{i}\n")
        modfile[f"vmod_{i}"] = os.path.normpath(p)
    return modfile


def execute(case, scratch):
    root = os.path.join(scratch, "c18_ws")
    modfile = materialise(case, root)
    sub = lambda xs: [x.replace("$ROOT", root) for x in xs]
    opts = {k: sub(v) for k, v in case["opts"].items()}
    # domain: configured source_dirs must not expand to the root alone
    if "source_dirs" in opts:
        exp_dirs = [p for pat in opts["source_dirs"] for p in fsmodel.expand_glob(pat, root) if os.path.isdir(p)]
        if set(exp_dirs) == {os.path.normpath(root)}:
            others = [d for d in case["dirs"]]
            if others:
                opts["source_dirs"] = opts["source_dirs"] + [others[0]]
            else:
                del opts["source_dirs"]
    cfg, argv = {}, ["--disable_autoupdate", "-n", "1"]
    for k, v in opts.items():
        if case["channel"].get(k) == "cli":
            argv += ["--" + k] + v
        else:
            cfg[k] = v
    if cfg:
        with open(os.path.join(root, case.get("cfgname", ".fortlsrc")), "w") as fh:
            json.dump(cfg, fh)
    expected = fsmodel.expected_files(root, opts.get("source_dirs"), opts.get("excl_paths", ()), opts.get("incl_suffixes", ()),
                                      opts.get("excl_suffixes", ()))
    info = {"expected": len(expected), "mechanisms": set(), "nested": any(os.path.dirname(p) != os.path.normpath(root) for p in expected)}
    # which mechanisms excluded something (for the non-triviality rule)
    allf = {os.path.normpath(os.path.join(root, f)) for f in case["files"]}
    for p in allf - expected:
        n = os.path.basename(p)
        if not fsmodel.suffix_ok(n, opts.get("incl_suffixes", ())):
            info["mechanisms"].add("suffix")
        elif any(n.endswith(x) for x in opts.get("excl_suffixes", ())):
            info["mechanisms"].add("excl_suffixes")
        elif "excl_paths" in opts and (p in {q for pat in opts["excl_paths"] for q in fsmodel.expand_glob(pat, root)}
                                       or os.path.dirname(p) in {q for pat in opts["excl_paths"] for q in fsmodel.expand_glob(pat, root)}):
            info["mechanisms"].add("excl_paths")
        else:
            info["mechanisms"].add("not-in-source-dir")
    try:
        srv = Server(root=root, argv=argv)
    except Exception as e:
        shutil.rmtree(root, ignore_errors=True)
        return [Disc(exc_signature(e, "INIT-EXC"), f"initialize raised {type(e).__name__}: {e}")], info
    discs = []
    if "error" in (srv.init_response or {}):
        discs.append(Disc("initialize-error", f"initialize answered {str(srv.init_response['error'])[:300]} for opts={opts} argv={argv}"))
    else:
        got = {os.path.normpath(p) for p in srv.s.workspace}
        resp, _ = srv.request("workspace/symbol", {"query": "vmod_"})
        sym_files = {modfile[s["name"]] for s in (resp.get("result") or []) if s["name"] in modfile}
        cli_sd = case["channel"].get("source_dirs") == "cli" and "source_dirs" in opts
        for name, g in (("workspace", got), ("workspace/symbol", sym_files)):
            extra, missing = g - expected, expected - g
            if not extra and not missing:
                continue
            rootn = os.path.normpath(root)
            if cli_sd and not missing and all(os.path.dirname(p) == rootn for p in extra):
                label = "cli-source_dirs-also-indexes-files-directly-in-root"
            else:
                label = "discovery-mismatch:" + "+".join((["extra"] if extra else []) + (["missing"] if missing else []))
            rel = lambda s: sorted(os.path.relpath(p, root) for p in s)
            discs.append(Disc(label, f"{name}: extra {rel(extra)} missing {rel(missing)}; opts={case['opts']} channel={case['channel']} "
                                     f"tree files={case['files']}"[:700]))
            break
    shutil.rmtree(root, ignore_errors=True)
    return discs, info


def oracle_factory(ctx):
    def oracle(case):
        discs, info = execute(case, ctx.scratch)
        nt = len(info["mechanisms"]) >= 2 and info["nested"]
        ctx.case(case, nt, sample={"dirs": case["dirs"], "files": case["files"], "opts": case["opts"], "channel": case["channel"]},
                 classes=[f"excluded-by:{m}" for m in sorted(info["mechanisms"])] + (["nested-source-dir"] if info["nested"] else [])
                 + [f"{k}:{v}" for k, v in sorted(case["channel"].items())] + (["nontrivial"] if nt else []))
        return discs

    return oracle


def run(ctx):
    ctx.hyp(case_st(), oracle_factory(ctx), max_examples=ctx.n(600, 3000))


def replay(ctx, case):
    return execute(case, ctx.scratch)[0]
