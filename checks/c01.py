"""C01 — one response per request, in order; server outlives any handler failure.

Level  : L1 stream mode (the real LangServer.run() loop over a framed byte stream), L2
         (python -m fortls over pipes) for a share of the sequences.
Domain : lists of 1-40 well-formed JSON-RPC messages: every method of the handler table with
         well-formed and with malformed params, unknown methods (as requests and notifications),
         $/cancelRequest, shutdown, exit anywhere; ids: ints, negative ints, strings, repeats;
         documents from the corpus and from textmut (so handlers really fail sometimes); plus
         *injected faults*: a drawn internal function (parse, check_file, get_definition,
         apply_change, ...) raises at its k-th call, so every error path of the dispatcher is
         exercised whether or not the tree currently has a parser defect.
Oracle : a reference model of the session computed from the message list alone.
"""
from __future__ import annotations

import json
import os
import shutil

from hypothesis import strategies as st

from harness import lsp, textmut
from harness.findings import Disc, exc_signature

PROPERTY = "C01"
LEVEL = "exploration"
SHARDS = {"quick": 8, "thorough": 16}
RULE = (
    "Hypothesis: sequences of 1-40 requests/notifications over the whole handler table (well-formed params, "
    "malformed params by drawn structural mutation, unknown methods, exit at any index, repeated/negative/string "
    "ids), on a small workspace of corpus + mutated documents, optionally with one injected fault (an internal "
    "function raising at its k-th call).  Oracle: responses == requests before exit, pairwise by id and in order; "
    "unknown method -> -32601, otherwise result or -32603; nothing but notifications besides; all JSON.  "
    "Non-trivial = a request answered with an error is followed by a request answered with a result, or a "
    "notification whose handler raised lies between two answered requests; distinct by message-list hash."
)
ASSUMPTIONS = [
    "only client->server requests and notifications are generated (no client responses), all JSON-RPC well-formed",
    "fault injection wraps internal functions from the harness (no source hooks)",
]

KNOWN_METHODS = [
    "initialize", "textDocument/documentSymbol", "textDocument/completion", "textDocument/signatureHelp",
    "textDocument/definition", "textDocument/references", "textDocument/documentHighlight", "textDocument/hover",
    "textDocument/implementation", "textDocument/rename", "textDocument/didOpen", "textDocument/didSave",
    "textDocument/didClose", "textDocument/didChange", "textDocument/codeAction", "initialized",
    "workspace/didChangeWatchedFiles", "workspace/didChangeConfiguration", "workspace/symbol", "$/cancelRequest",
    "$/setTrace", "shutdown", "exit",
]
POSITIONAL = ["textDocument/completion", "textDocument/signatureHelp", "textDocument/definition", "textDocument/references",
              "textDocument/documentHighlight", "textDocument/hover", "textDocument/implementation", "textDocument/rename"]
DOCSYNC = ["textDocument/didOpen", "textDocument/didSave", "textDocument/didClose"]
UNKNOWN = ["textDocument/formatting", "foo", "", "workspace/executeCommand", "textDocument/hover ", "Initialize", "$/progress",
           "exit2", "textDocument/définition"]

FILES = ["a.f90", "b.F90", "c.f"]
uri_st = st.one_of(
    st.sampled_from(["$ROOT/" + f for f in FILES]).map(lambda p: "file://" + p),
    st.sampled_from(["file://$ROOT/missing.f90", "untitled:Untitled-1", "http://example.org/x.f90", "$ROOT/a.f90", "file://",
                     "file:///", "", "file://$ROOT/sp ace%20.f90", "file://$ROOT/a.f90#frag"]),
)
pos_st = st.one_of(
    st.fixed_dictionaries({"line": st.integers(0, 30), "character": st.integers(0, 40)}),
    st.fixed_dictionaries({"line": st.integers(0, 30), "character": st.integers(0, 40)}),
    st.fixed_dictionaries({"line": st.sampled_from([-1, 10**9, 2.5, "3", None]), "character": st.integers(0, 5)}),
    st.fixed_dictionaries({"line": st.integers(0, 5), "character": st.sampled_from([-1, 10**9, 1.5, "x", None])}),
)
change_st = st.one_of(
    st.fixed_dictionaries({"text": st.sampled_from(["", "program p\nend program p\n", "module m\ninteger :: i\ncontains\nsubroutine s\nend subroutine\nend module\n",
                                                    "#define X \\\n\n#if X\n", "x = 'abc", "\n\n"])}),
    st.fixed_dictionaries({"range": st.fixed_dictionaries({"start": pos_st, "end": pos_st}), "text": st.sampled_from(["", "x", "\n", "end\n", "integer :: q\n"])}),
)


@st.composite
def params_st(draw, method):
    if method == "initialize":
        return draw(st.sampled_from([{"rootPath": "$ROOT"}, {"rootUri": "file://$ROOT"}, {"rootPath": "$ROOT", "capabilities": {}}, {},
                                     {"rootPath": "$ROOT/nonexistent"}, {"rootUri": None, "rootPath": None}]))
    if method in POSITIONAL:
        p = {"textDocument": {"uri": draw(uri_st)}, "position": draw(pos_st)}
        if method == "textDocument/references":
            p["context"] = {"includeDeclaration": True}
        if method == "textDocument/rename":
            p["newName"] = draw(st.sampled_from(["newname", "", "1x", "a b", "é"]))
        return p
    if method == "textDocument/documentSymbol" or method in DOCSYNC:
        return {"textDocument": {"uri": draw(uri_st)}}
    if method == "textDocument/didChange":
        return {"textDocument": {"uri": draw(uri_st), "version": 2}, "contentChanges": draw(st.lists(change_st, max_size=3))}
    if method == "textDocument/codeAction":
        return {"textDocument": {"uri": draw(uri_st)}, "range": {"start": draw(pos_st), "end": draw(pos_st)}, "context": {"diagnostics": []}}
    if method == "workspace/symbol":
        return {"query": draw(st.sampled_from(["", "s", "test", "é", "*"]))}
    if method == "$/cancelRequest":
        return {"id": draw(st.integers(0, 50))}
    return draw(st.sampled_from([{}, None, {"x": 1}]))


def malform(draw, p):
    """Structurally damage a params value (still JSON)."""
    k = draw(st.integers(0, 7))
    if k == 0:
        return "__ABSENT__"
    if k == 1:
        return draw(st.sampled_from([[], "str", None, 5, [1, 2], True]))
    if not isinstance(p, dict) or not p:
        return draw(st.sampled_from([[], None, 0]))
    p = json.loads(json.dumps(p))
    # walk to a random node and delete / retype it
    node = p
    path = []
    for _ in range(draw(st.integers(0, 2))):
        keys = [kk for kk in node if isinstance(node[kk], dict) and node[kk]]
        if not keys:
            break
        kk = draw(st.sampled_from(sorted(keys)))
        path.append(kk)
        node = node[kk]
    key = draw(st.sampled_from(sorted(node)))
    if draw(st.booleans()):
        del node[key]
    else:
        node[key] = draw(st.sampled_from([None, 0, -1, "x", [], {}, 1.5, True, ["a"], {"uri": 5}]))
    return p


@st.composite
def message_st(draw):
    kind = draw(st.integers(0, 20))
    if kind == 20:
        # a response object sent by the client (well-formed JSON-RPC, answer to nothing): no reply, the server goes on
        m = {"jsonrpc": "2.0", "id": draw(st.one_of(st.integers(0, 60), st.none(), st.sampled_from(["a", ""])))}
        if draw(st.booleans()):
            m["result"] = draw(st.sampled_from([None, {}, [1, 2], "ok"]))
        else:
            m["error"] = {"code": -32000, "message": "client side"}
        return m
    if kind <= 13:
        method = draw(st.sampled_from(KNOWN_METHODS[:-1]))  # exit drawn separately
    elif kind <= 15:
        method = draw(st.sampled_from(UNKNOWN))
    elif kind == 16:
        method = "exit"
    else:
        method = draw(st.sampled_from(["textDocument/didOpen", "textDocument/didChange", "textDocument/didSave", "textDocument/hover",
                                       "textDocument/definition", "textDocument/documentSymbol"]))
    params = draw(params_st(method)) if method in KNOWN_METHODS else draw(st.sampled_from([{}, None, {"a": [1, "é"]}]))
    if draw(st.integers(0, 4)) == 0:
        params = malform(draw, params)
    notification_methods = DOCSYNC + ["textDocument/didChange", "initialized", "workspace/didChangeWatchedFiles",
                                      "workspace/didChangeConfiguration", "$/cancelRequest", "$/setTrace", "exit"]
    as_note = draw(st.booleans()) if method not in notification_methods else draw(st.integers(0, 5)) != 0
    m = {"jsonrpc": "2.0", "method": method}
    if not as_note:
        m["id"] = draw(st.one_of(st.integers(0, 60), st.integers(-3, 3), st.sampled_from(["a", "id-é", "1", ""])))
    if params != "__ABSENT__":
        m["params"] = params
    return m


FAULT_SITES = ["parse", "check_file", "get_definition", "apply_change", "update_workspace_file", "load_from_disk",
               "get_code_line", "resolve_links", "path_from_uri", "find_in_scope"]


@st.composite
def case_st(draw):
    names = [n for n, _ in textmut.corpus()]
    files = {}
    files["a.f90"] = {"seed": draw(st.sampled_from([n for n in names if n.endswith(".f90")])), "muts": []}
    files["b.F90"] = draw(textmut.mutated_case_st(max_muts=3, seeds=[n for n in names if n.endswith((".F90", ".f90"))]))
    files["c.f"] = draw(st.one_of(textmut.soup_st(max_lines=10), st.just({"seed": "test_fixed.f" if "test_fixed.f" in names else names[0], "muts": []})))
    msgs = draw(st.lists(message_st(), min_size=1, max_size=40))
    if draw(st.integers(0, 3)) != 0:
        msgs.insert(0, {"jsonrpc": "2.0", "id": 1000, "method": "initialize", "params": {"rootPath": "$ROOT"}})
    if draw(st.integers(0, 5)) == 0:
        # long runs of cheap requests: per-session counters and buffers must not drift
        n = draw(st.integers(30, 90))
        base = draw(st.integers(100, 10**6))
        meths = draw(st.lists(st.sampled_from(["shutdown", "workspace/symbol", "textDocument/documentSymbol", "foo", "$/setTrace"]),
                              min_size=1, max_size=3))
        burst = []
        for j in range(n):
            mth = meths[j % len(meths)]
            mm = {"jsonrpc": "2.0", "id": base + j * draw(st.sampled_from([1, 1, 7])), "method": mth}
            if mth == "workspace/symbol":
                mm["params"] = {"query": "zz"}
            elif mth == "textDocument/documentSymbol":
                mm["params"] = {"textDocument": {"uri": "file://$ROOT/a.f90"}}
            burst.append(mm)
        at = draw(st.integers(0, len(msgs)))
        msgs[at:at] = burst
    fault = None
    if draw(st.integers(0, 2)) == 0:
        fault = [draw(st.sampled_from(FAULT_SITES)), draw(st.integers(1, 12)),
                 draw(st.sampled_from(["RuntimeError", "KeyError", "RecursionError", "UnicodeDecodeError", "TypeError"]))]
    return {"files": {k: textmut.resolve_case(v) for k, v in files.items()}, "msgs": msgs, "fault": fault,
            "l2": draw(st.integers(0, 24)) == 0}


# ------------------------------------------------------------------ reference model
def expected_responses(msgs):
    """[(id, 'notfound'|'any')] for the requests processed before the server stops."""
    exp = []
    for m in msgs:
        if "method" not in m:
            continue  # a response object of the client: not answered
        if "id" in m:
            exp.append((m["id"], "any" if m["method"] in KNOWN_METHODS else "notfound"))
        if m["method"] == "exit":
            break
    return exp


def subst(obj, root):
    return json.loads(json.dumps(obj).replace("$ROOT", json.dumps(root)[1:-1]))


# ------------------------------------------------------------------ fault injection (harness side)
class Fault:
    def __init__(self, spec):
        self.spec = spec
        self.count = 0
        self.fired = 0
        self.undo = []

    def _wrap(self, owner, name):
        orig = getattr(owner, name)
        spec = self

        def wrapped(*a, **k):
            spec.count += 1
            if spec.count == spec.spec[1]:
                spec.fired += 1
                exc = {"RuntimeError": RuntimeError("VERIF-FAULT"), "KeyError": KeyError("VERIF-FAULT"),
                       "RecursionError": RecursionError("VERIF-FAULT maximum recursion depth exceeded"),
                       "UnicodeDecodeError": UnicodeDecodeError("utf-8", b"\xff", 0, 1, "VERIF-FAULT"),
                       "TypeError": TypeError("VERIF-FAULT")}[spec.spec[2]]
                raise exc
            return orig(*a, **k)

        if isinstance(owner.__dict__.get(name), staticmethod):
            setattr(owner, name, staticmethod(wrapped))
        else:
            setattr(owner, name, wrapped)
        self.undo.append((owner, name, owner.__dict__.get(name), orig))

    def __enter__(self):
        if self.spec is None:
            return self
        import fortls.langserver as ls
        from fortls.parsers.internal import ast as fast
        from fortls.parsers.internal import parser as fparser

        site = self.spec[0]
        table = {
            "parse": (fparser.FortranFile, "parse"), "check_file": (fparser.FortranFile, "check_file"),
            "get_definition": (ls.LangServer, "get_definition"), "apply_change": (fparser.FortranFile, "apply_change"),
            "update_workspace_file": (ls.LangServer, "update_workspace_file"), "load_from_disk": (fparser.FortranFile, "load_from_disk"),
            "get_code_line": (fparser.FortranFile, "get_code_line"), "resolve_links": (fast.FortranAST, "resolve_links"),
            "path_from_uri": (ls, "path_from_uri"), "find_in_scope": (ls, "find_in_scope"),
        }
        owner, name = table[site]
        self._orig = (owner, name, getattr(owner, name))
        self._wrap(owner, name)
        return self

    def __exit__(self, *a):
        if self.spec is not None:
            owner, name, orig = self._orig
            setattr(owner, name, orig)
        return False


# ------------------------------------------------------------------ execution
def execute(case, scratch):
    root = os.path.join(scratch, "c01_ws")
    shutil.rmtree(root, ignore_errors=True)
    os.makedirs(root)
    for fn, text in case["files"].items():
        with open(os.path.join(root, fn), "w", encoding="utf-8", newline="") as fh:
            fh.write(text)
    msgs = subst(case["msgs"], root)
    data = b"".join(lsp.frame(m) for m in msgs)
    l2 = case.get("l2") and not case.get("fault")
    fired = 0
    try:
        if l2:
            rc, out, err = lsp.run_subprocess(data, argv=["--disable_autoupdate", "--incremental_sync", "-n", "2"], cwd=root, timeout=300)
        else:
            with Fault(case.get("fault")) as f:
                out, srv = lsp.run_stream(data)
                fired = f.fired
            rc, err = 0, b""
    except Exception as e:
        return [Disc(exc_signature(e, "RUN-EXC"), f"run() let an exception escape: {type(e).__name__}: {e}")], {"fired": fired}
    finally:
        shutil.rmtree(root, ignore_errors=True)
    discs = []
    frames, errs = lsp.read_frames(out)
    if errs:
        discs.append(Disc("stdout-not-frames", f"output is not a sequence of frames: {errs[0]}"))
    exp = expected_responses(msgs)
    resp = [f for f in frames if isinstance(f, dict) and "method" not in f]
    other = [f for f in frames if not (isinstance(f, dict) and "method" not in f)]
    info = {"fired": fired, "n_resp": len(resp), "errors": 0, "pattern": False, "l2": bool(l2)}
    for f in other:
        if not isinstance(f, dict) or "id" in f or not isinstance(f.get("method"), str):
            discs.append(Disc("emitted-non-notification", f"server emitted {str(f)[:200]}"))
    got_ids = [f.get("id") for f in resp]
    exp_ids = [i for i, _ in exp]
    if got_ids != exp_ids:
        extra = [i for i in got_ids if i not in exp_ids]
        if extra:
            label = "response-id-not-a-request-id:" + ("minus-one" if extra == [-1] * len(extra) and -1 not in exp_ids else "other")
            src = [f for f in resp if f.get("id") in extra][0]
            discs.append(Disc(label, f"response with id {extra[0]!r} that no request carried: {str(src)[:300]}"))
        elif len(got_ids) < len(exp_ids):
            missing = exp_ids[len([1 for a, b in zip(got_ids, exp_ids) if a == b]) :][:1]
            k = next((j for j, (a, b) in enumerate(zip(got_ids + [None] * len(exp_ids), exp_ids)) if a != b), 0)
            discs.append(Disc("request-unanswered", f"request #{k} id={exp_ids[k]!r} ({[m for m in msgs if 'id' in m and 'method' in m][k]['method']}) not answered; "
                                                    f"got {got_ids!r}, expected {exp_ids!r}"))
        else:
            discs.append(Disc("responses-out-of-order-or-duplicated", f"got ids {got_ids!r}, expected {exp_ids!r}"))
    else:
        seen_err = False
        for f, (i, cls) in zip(resp, exp):
            has_r, has_e = "result" in f, "error" in f
            if has_r == has_e:
                discs.append(Disc("response-shape", f"response must have exactly one of result/error: {str(f)[:200]}"))
                continue
            if has_e:
                e = f["error"]
                info["errors"] += 1
                if not isinstance(e, dict) or not isinstance(e.get("code"), int) or not isinstance(e.get("message"), str):
                    discs.append(Disc("error-shape", f"malformed error object {str(e)[:200]}"))
                    continue
                if cls == "notfound" and e["code"] != -32601:
                    discs.append(Disc("unknown-method-code", f"unknown method answered with code {e['code']}"))
                if cls == "any" and e["code"] != -32603:
                    discs.append(Disc("handler-failure-code", f"handler failure answered with code {e['code']} ({e['message'][:80]})"))
                seen_err = True
            else:
                if cls == "notfound":
                    discs.append(Disc("unknown-method-result", f"unknown method answered with a result: {str(f)[:200]}"))
                if seen_err:
                    info["pattern"] = True
    if l2 and rc != 0:
        discs.append(Disc("l2-exit-status", f"process exit status {rc}; stderr tail {err[-200:]!r}"))
    if fired and not discs:
        info["pattern"] = True
    return discs, info


def oracle_factory(ctx):
    def oracle(case):
        discs, info = execute(case, ctx.scratch)
        key = json.dumps([case["msgs"], case["fault"]], sort_keys=True)
        ctx.case(key, bool(info.get("pattern")),
                 sample={"msgs": case["msgs"][:8], "n_msgs": len(case["msgs"]), "fault": case["fault"]},
                 classes=["fault" if case["fault"] else "no-fault"] + (["fault-fired"] if info.get("fired") else [])
                 + (["l2"] if info.get("l2") else []) + (["has-error-response"] if info.get("errors") else [])
                 + (["nontrivial"] if info.get("pattern") else []))
        return discs

    return oracle


def run(ctx):
    ctx.hyp(case_st(), oracle_factory(ctx), max_examples=ctx.n(300, 1500))


def replay(ctx, case):
    return execute(case, ctx.scratch)[0]
