"""C17 — indexing never executes or writes anything on behalf of file contents.

Monitor : sys.addaudithook (harness/audithook.py) records compile/exec of non-module code,
          process spawning, network, and file mutation events with the fortls stack.
Domain  : adversarial workspaces in which every place where file text could flow into an
          evaluator (#if / #elif expressions, #define bodies - object-like, function-like,
          multi-line -, pp_defs values and other options of the configuration file, #include'd
          headers, identifiers, character literals, comments) is filled from a grammar of
          host-language payloads, each carrying a unique marker and a side effect on a
          sentinel path.  The workspace is indexed, every file opened/changed/saved, and hover /
          definition / completion / references are asked on payload lines.
Oracle  : (i) no compile/exec event whose source or constants contain the marker; (ii) no
          spawn / network / file-mutation event at all (debug log off, update check off);
          (iii) the sentinel does not exist and the workspace snapshot is unchanged.
"""
from __future__ import annotations

import hashlib
import json
import os
import re
import shutil

from hypothesis import strategies as st

from harness.findings import Disc
from harness.worker import Worker

PROPERTY = "C17"
LEVEL = "exploration"
SHARDS = {"quick": 8, "thorough": 16}
RULE = (
    "Hypothesis: payload shape (call, attribute chain, __import__, lambda, comprehension, f-string, walrus, "
    "exec/eval string, subscript, conditional expression, open-for-write) x injection point (#if, #elif, "
    "#define+#if, function-like macro, multi-line macro, #ifdef-guarded, included header, config pp_defs value, "
    "config string options, identifier/literal/comment positions) x file suffix; the whole workspace is indexed "
    "and queried under an audit-hook monitor.  Non-trivial = the payload sits where the reference preprocessor "
    "says a directive is evaluated or a macro is expanded (active region); distinct by (shape, point, wrapper)."
)
ASSUMPTIONS = [
    "the audit hook sees Python-level events only (fortls has no C extensions of its own)",
    "debug_log and the PyPI update check are disabled (their side effects are the documented exceptions)",
]

MARK = "VMARK"


def payloads(sentinel: str, tag: str):
    s = sentinel
    m = MARK + tag
    # payloads that need no quote, dot or comma: the code is spelled with chr() sums, and the few names it needs can be
    # written with compatibility characters that Python's identifier normalisation (NFKC) maps to the builtin names
    code = f"open('{s}','w').close()"
    chr_sum = "+".join(f"chr({ord(c)})" for c in code)
    fullwidth = lambda t: "".join(chr(ord(c) - 0x61 + 0xFF41) if "a" <= c <= "z" else c for c in t)
    mathbold = lambda t: "".join(chr(ord(c) - 0x61 + 0x1D41A) if "a" <= c <= "z" else c for c in t)
    return {
        "exec-chr-sum": f"exec({chr_sum})",
        "fullwidth-exec-chr-sum": fullwidth(f"exec({chr_sum})"),
        "fullwidth-eval-chr-sum": fullwidth(f"eval({chr_sum})"),
        "mathbold-exec-chr-sum": mathbold(f"exec({chr_sum})"),
        "fullwidth-digits-too": fullwidth(f"exec({chr_sum})").replace("1", "\uff11").replace("0", "\uff10"),
        "mixed-width-exec-chr-sum": "\uff45xec(" + fullwidth(chr_sum) + ")",
        "os.system": f"__import__('os').system('touch {s} #{m}')",
        "open-write": f"open('{s}','w').write('{m}')",
        "attr-chain": f"().__class__.__base__.__subclasses__().__len__().__class__('{m}').__len__()",
        "lambda": f"(lambda: __import__('pathlib').Path('{s}').write_text('{m}'))()",
        "comprehension": f"[open('{s}','a').write(c) for c in '{m}']",
        "fstring": f"f\"{{__import__('os').system('touch {s}')}}{m}\"",
        "walrus": f"(q := __import__('os')).system('touch {s} #{m}')",
        "exec-string": f"exec(\"import os; os.system('touch {s}')#{m}\")",
        "eval-string": f"eval(\"__import__('os').system('touch {s}')\") or '{m}'",
        "subscript": f"__builtins__.__dict__['__import__']('os').system('touch {s} #{m}')",
        "conditional": f"1 if __import__('os').system('touch {s} #{m}') else 0",
        "getattr": f"getattr(__import__('os'),'system')('touch {s} #{m}')",
        "subprocess": f"__import__('subprocess').Popen(['touch','{s}','{s}.{m}'])",
        "bool-ops": f"1 and __import__('os').system('touch {s} #{m}') or 0",
        "no-blank": f"__import__('os').system('touch\\t{s}')or'{m}'",
    }


SHAPES = sorted(payloads("x", "0"))
POINTS = ["if", "elif", "define-if", "define-elif", "funcmacro-if", "funcmacro-use", "multiline-define-if", "ifdef-guarded-define",
          "include-header", "config-pp_defs", "config-pp_defs-elif", "config-strings", "identifier-literal-comment",
          "define-use-in-code", "nested-inactive"]

case_st = st.fixed_dictionaries({
    "shape": st.sampled_from(SHAPES),
    "point": st.sampled_from(POINTS),
    "suffix": st.sampled_from([".F90", ".F90", ".F", ".f90", ".fpp", ".F08"]),
    "wrap": st.sampled_from(["", "(", "!", "1 + ", "defined(ZZ) || ", "0 == "]),
    "tag": st.integers(0, 10**6).map(str),
})


def build_workspace(case, root):
    """-> (files: {relpath: text}, sentinel path, marker, evaluated: bool)"""
    sentinel = os.path.join(os.path.dirname(root), "sentinel_" + case["tag"])
    pl = payloads(sentinel, case["tag"])[case["shape"]]
    w = case["wrap"]
    expr = (w + pl + (")" if w == "(" else ""))
    suf = case["suffix"]
    main = "src" + suf
    files, cfg = {}, {"disable_autoupdate": True}
    body = ["program vprog", "  implicit none", "  integer :: vsafe", "  vsafe = 1", "end program vprog"]
    evaluated = suf != ".f90"
    p = case["point"]
    pre = []
    if p == "if":
        pre = [f"#if {expr}", "integer :: a1", "#endif"]
    elif p == "elif":
        pre = ["#if 0", "integer :: a0", f"#elif {expr}", "integer :: a1", "#endif"]
    elif p == "define-if":
        pre = [f"#define VX {pl}", f"#if {w}VX{')' if w == '(' else ''}", "integer :: a1", "#endif"]
    elif p == "define-elif":
        pre = [f"#define VX {pl}", "#ifdef NOPE", "#elif VX", "integer :: a1", "#else", "#endif"]
    elif p == "funcmacro-if":
        pre = [f"#define VF(a) {pl}", "#if VF(1)", "integer :: a1", "#endif", "#if VF", "#endif"]
    elif p == "funcmacro-use":
        pre = [f"#define VF(a,b) {pl}", "integer :: q = VF(1,2)"]
    elif p == "multiline-define-if":
        half = len(pl) // 2
        pre = [f"#define VX {pl[:half]}\\", pl[half:], "#if VX", "integer :: a1", "#endif"]
    elif p == "ifdef-guarded-define":
        pre = ["#ifndef GUARD", "#define GUARD", f"#define VX {pl}", "#endif", "#if defined(GUARD) && VX", "integer :: a1", "#endif"]
    elif p == "include-header":
        files["inc/hdr.h"] = f"#define VX {pl}\n#if VX\n#define VY 1\n#endif\n"
        cfg["include_dirs"] = ["inc"]
        pre = ['#include "hdr.h"', "#if VX", "integer :: a1", "#endif"]
    elif p == "config-pp_defs":
        cfg["pp_defs"] = {"VX": pl, "VZ": ""}
        pre = ["#if VX", "integer :: a1", "#endif"]
    elif p == "config-pp_defs-elif":
        cfg["pp_defs"] = {"VX": pl}
        pre = ["#if defined(VQ)", "#elif VX > 0", "integer :: a1", "#endif"]
    elif p == "config-strings":
        cfg.update({"hover_language": pl, "pp_suffixes": [suf, pl], "incl_suffixes": [".zz"], "excl_paths": [pl],
                    "source_dirs": [".", pl], "include_dirs": [pl], "excl_suffixes": [pl]})
        evaluated = False
    elif p == "identifier-literal-comment":
        body = ["program vprog", f"  character(len=200) :: s = \"{pl.replace(chr(34), chr(39))}\"", f"  ! {pl}", f"  !> {pl}",
                f"  print *, '{pl.replace(chr(39), chr(34))}'", f"  call {re.sub('[^A-Za-z0-9_]', '_', pl)[:60]}()", "end program vprog"]
        evaluated = False
    elif p == "define-use-in-code":
        pre = [f"#define VX {pl}", "integer :: b1 = VX", "call VX", "print *, VX"]
        evaluated = False
    elif p == "nested-inactive":
        pre = ["#if 0", f"#if {expr}", "#endif", f"#define VX {pl}", "#endif", "#ifdef VX", "#if VX", "#endif", "#endif"]
        evaluated = False
    files[main] = "\n".join(pre[: 0] + ["module vmod"] + pre + ["end module vmod"] + body) + "\n"
    files[".fortlsrc"] = json.dumps(cfg)
    if p in ("config-pp_defs", "config-pp_defs-elif", "config-strings", "include-header"):
        evaluated = evaluated or suf in (".F90", ".F", ".F08", ".fpp")
    if suf == ".fpp":
        cfg.setdefault("pp_suffixes", [".fpp"])
        cfg.setdefault("incl_suffixes", [".fpp"])
        files[".fortlsrc"] = json.dumps(cfg)
    return files, sentinel, MARK + case["tag"], evaluated


def snapshot(root):
    out = {}
    for d, _, fs in os.walk(root):
        for f in fs:
            p = os.path.join(d, f)
            try:
                with open(p, "rb") as fh:
                    out[os.path.relpath(p, root)] = hashlib.sha1(fh.read()).hexdigest()
            except OSError:
                out[os.path.relpath(p, root)] = "unreadable"
    return out


# ------------------------------------------------------------------ runs in the worker (L1)
def execute(case, scratch):
    from harness import audithook
    from harness.lsp import Server, pos_params, uri_of

    audithook.install()
    root = os.path.join(scratch, "c17_ws", "w")
    shutil.rmtree(os.path.dirname(root), ignore_errors=True)
    os.makedirs(root)
    files, sentinel, marker, evaluated = build_workspace(case, root)
    for rel, text in files.items():
        p = os.path.join(root, rel)
        os.makedirs(os.path.dirname(p), exist_ok=True)
        with open(p, "w", encoding="utf-8") as fh:
            fh.write(text)
    before = snapshot(root)
    audithook.drain()
    errs = []
    try:
        srv = Server(root=root, argv=["--disable_autoupdate", "--incremental_sync", "-n", "1"])
        for rel, text in files.items():
            if rel.startswith("."):
                continue
            p = os.path.join(root, rel)
            srv.did_open(p)
            srv.did_change(p, [{"text": text + "\n"}])
            srv.did_change(p, [{"range": {"start": {"line": 0, "character": 0}, "end": {"line": 0, "character": 0}}, "text": " "}])
            n = len(text.split("\n"))
            for ln in range(n):
                for ch in (2, 12, 30):
                    for meth in ("textDocument/hover", "textDocument/definition", "textDocument/completion",
                                 "textDocument/references", "textDocument/signatureHelp"):
                        srv.request(meth, pos_params(p, ln, ch))
            srv.request("textDocument/documentSymbol", {"textDocument": {"uri": uri_of(p)}})
            srv.did_save(p)
        srv.request("workspace/symbol", {"query": ""})
    except Exception as e:  # totality is C01/C09's business; the monitor result is what matters here
        errs.append(f"{type(e).__name__}: {e}")
    events = audithook.drain()
    after = snapshot(root)
    out = []
    for ev in events:
        blob = json.dumps(ev)
        if ev["event"] in ("compile", "exec"):
            if marker in blob or "touch" in blob or "__import__" in blob or os.path.basename(sentinel) in blob or "chr(" in blob or "\uff43\uff48\uff52" in blob:
                site = (ev.get("stack") or ["?"])[-1]
                out.append((f"EVAL:{site}", f"file text reached the interpreter: {ev['event']} of {ev.get('source', ev.get('consts'))!r} at {site}"))
        else:
            site = (ev.get("stack") or ["?"])[-1]
            out.append((f"EFFECT:{ev['event']}:{site}", f"{ev['event']} {ev.get('args', ev.get('path'))!r} at {site}"))
    if os.path.exists(sentinel):
        out.append(("SENTINEL", f"the payload's side effect happened: {sentinel} exists"))
        os.unlink(sentinel)
    if before != after:
        diff = sorted(set(before.items()) ^ set(after.items()))
        out.append(("FS-CHANGED", f"workspace files changed: {diff[:4]!r}"))
    shutil.rmtree(os.path.dirname(root), ignore_errors=True)
    return {"discs": out, "evaluated": evaluated, "lines": files[[k for k in files if k.startswith('src')][0]].split("\n")[:8]}


# ------------------------------------------------------------------ L2: real process tree
def l2_session(ctx, case):
    from harness import lsp

    base = os.path.join(ctx.scratch, "c17_l2")
    shutil.rmtree(base, ignore_errors=True)
    root = os.path.join(base, "w")
    os.makedirs(root)
    files, sentinel, marker, evaluated = build_workspace(case, root)
    for rel, text in files.items():
        p = os.path.join(root, rel)
        os.makedirs(os.path.dirname(p), exist_ok=True)
        with open(p, "w", encoding="utf-8") as fh:
            fh.write(text)
    before = snapshot(root)
    log = os.path.join(base, "audit.log")
    main = [k for k in files if k.startswith("src")][0]
    path = os.path.join(root, main)
    msgs = [lsp.req(1, "initialize", {"rootPath": root}), lsp.note("textDocument/didOpen", {"textDocument": {"uri": lsp.uri_of(path)}}),
            lsp.req(2, "textDocument/hover", lsp.pos_params(path, 1, 10)), lsp.note("textDocument/didSave", {"textDocument": {"uri": lsp.uri_of(path)}}),
            lsp.req(3, "workspace/symbol", {"query": ""}), lsp.note("exit")]
    hookdir = os.path.join(os.path.dirname(os.path.dirname(os.path.abspath(__file__))), "harness", "audit")
    env = {"VERIF_AUDIT_LOG": log, "PYTHONPATH": hookdir + os.pathsep + lsp.REPO}
    rc, out, err = lsp.run_subprocess(b"".join(lsp.frame(m) for m in msgs), argv=["--disable_autoupdate", "-n", "3"], cwd=root, env=env)
    discs = []
    events = []
    if os.path.exists(log):
        with open(log) as fh:
            events = [json.loads(l) for l in fh if l.strip()]
    for ev in events:
        blob = json.dumps(ev)
        site = (ev.get("stack") or ["?"])[-1]
        if ev["event"] in ("compile", "exec"):
            if marker in blob or "touch" in blob or "__import__" in blob or os.path.basename(sentinel) in blob or "chr(" in blob or "\uff43\uff48\uff52" in blob:
                discs.append(Disc(f"EVAL:{site}", f"L2: file text reached the interpreter: {ev.get('source', ev.get('consts'))!r} at {site}"))
        else:
            discs.append(Disc(f"EFFECT:{ev['event']}:{site}", f"L2: {ev['event']} {ev.get('args', ev.get('path'))!r} at {site}"))
    if os.path.exists(sentinel):
        discs.append(Disc("SENTINEL", "L2: the payload's side effect happened"))
        os.unlink(sentinel)
    after = snapshot(root)
    if after != before:
        discs.append(Disc("FS-CHANGED", f"L2: workspace files changed: {sorted(set(before.items()) ^ set(after.items()))[:4]!r}"))
    frames, ferrs = lsp.read_frames(out)
    if not any(f.get("id") == 1 for f in frames):
        from harness.runner import HarnessError

        raise HarnessError(f"L2 session did not initialise: rc={rc} {err[-400:]!r}")
    ctx.extra["l2_sessions"] = ctx.extra.get("l2_sessions", 0) + 1
    ctx.extra["l2_monitor_alive"] = True
    shutil.rmtree(base, ignore_errors=True)
    return discs


def monitor_selftest(ctx):
    """The monitor must see an eval of marked text and a file creation: otherwise the check is blind."""
    from harness import audithook

    audithook.install()
    audithook.drain()
    p = os.path.join(ctx.scratch, "selftest_sentinel")
    eval("len('VMARKselftest')")
    with open(p, "w") as fh:
        fh.write("x")
    os.unlink(p)
    evs = audithook.drain()
    kinds = {e["event"] for e in evs}
    if not {"compile", "open-for-write", "os.remove"} <= kinds:
        from harness.runner import HarnessError

        raise HarnessError(f"audit monitor blind: saw only {kinds}")
    ctx.notes["monitor_selftest"] = "saw compile, open-for-write and os.remove events for a planted eval/open/unlink"


def run(ctx):
    monitor_selftest(ctx)
    w = Worker("checks.c17:execute")

    def oracle(case):
        status, val, cpu = w.call((case, ctx.scratch), cpu_limit=60.0)
        if status != "ok":
            return [Disc(f"WORKER:{status}", f"indexing the adversarial workspace {status} (cpu {cpu:.1f}s)")]
        if "harness_error" in val:
            from harness.runner import HarnessError

            raise HarnessError(val["harness_error"])
        ctx.case((case["shape"], case["point"], case["wrap"], case["suffix"]), val["evaluated"],
                 sample={"case": case, "lines": val["lines"]},
                 classes=[f"point:{case['point']}", f"shape:{case['shape']}"] + (["active"] if val["evaluated"] else []))
        return [Disc(s, wh) for s, wh in val["discs"]]

    try:
        ctx.hyp(case_st, oracle, max_examples=ctx.n(400, 5000), collect=True)
    finally:
        w.close()
    # L2: a few real process trees under the sitecustomize monitor
    k = 0
    for shape in SHAPES:
        for point in ("define-if", "config-pp_defs", "include-header"):
            k += 1
            if k % ctx.nshards != ctx.shard or (ctx.tier == "quick" and k % (ctx.nshards * 3) >= ctx.nshards):
                continue
            case = {"shape": shape, "point": point, "suffix": ".F90", "wrap": "", "tag": str(900000 + k)}
            ctx.case(("l2", shape, point), True, classes=["l2"])
            ctx.check(l2_session(ctx, case), dict(case, l2=True))


def replay(ctx, case):
    if case.get("l2"):
        return l2_session(ctx, case)
    w = Worker("checks.c17:execute")
    try:
        status, val, cpu = w.call((case, ctx.scratch), cpu_limit=60.0)
        if status != "ok":
            return [Disc(f"WORKER:{status}", "worker " + status)]
        return [Disc(s, wh) for s, wh in val["discs"]]
    finally:
        w.close()
