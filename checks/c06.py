"""C06 — references and rename cover exactly the occurrences of the entity.

Domain : fmodel programs with dense expressions (i+i, a*a-a, f(x,x)), the entity's spelling inside
         comments and character literals, homonyms in other scopes/modules, type-bound bindings
         with =>; every declared variable / procedure / component and a drawn subset of its
         occurrences as the request position; fresh new names for rename.
Oracle : references(o) and documentHighlight(o) == the model's occurrence set of the entity (as
         ranges), identical from whichever occurrence; rename(o, new) == edits on exactly those
         ranges with newText == new and the old spelling under every range.  Round trip: the edits
         are applied, a fresh server indexes the result and every edited occurrence must resolve
         to the renamed declaration (sampled: gfortran still accepts the program).
"""
from __future__ import annotations

import dataclasses
import os
import shutil

from hypothesis import strategies as st

from harness import fmodel, fws
from harness.findings import Disc
from harness.lsp import Server, pos_params, uri_of

PROPERTY = "C06"
LEVEL = "exploration"
SHARDS = {"quick": 8, "thorough": 16}
RULE = (
    "Hypothesis fmodel programs x every variable / dummy / local / procedure / component entity (capped per program) x "
    "{references, documentHighlight from up to 3 of its occurrences; rename from one}.  Required set = occurrences "
    "bound to the entity and spelled with its own name; occurrences reached through a USE alias, through the function-"
    "result name or through a same-named binding are optional.  Non-trivial = the entity has >=3 occurrences two of "
    "which share a line, or a homonym exists in another scope; distinct by (program hash, entity)."
)
ASSUMPTIONS = [
    "occurrence table of harness/fmodel.py; alias-spelled uses, function-result uses and 'procedure :: name' same-name bindings are tolerated either way",
    "layout without statement splitting/joining (C13's subject)",
]

ENT_KINDS = ("variable", "local", "dummy", "subroutine", "function", "component", "assoc", "type", "interface")
NEWNAME = "zq_renamed"


def occ_sets(r, prog):
    """ent id -> (required set, optional set) of (file, line, col, endcol)"""
    req, opt = {}, {}
    for o in r.occs:
        e = o.ent
        key = (o.file, o.line, o.col, o.col + len(o.text))
        if o.role in ("resultuse", "resultdecl"):
            opt.setdefault(e.id, set()).add(key)
            continue
        if o.text.lower() != e.name.lower():
            opt.setdefault(e.id, set()).add(key)
            continue
        if e.kind == "binding" and e.attrs.get("same_name"):
            # 'procedure :: impl' and obj%impl: bound to the binding; also plausible for the procedure itself
            opt.setdefault(e.attrs["decl_via"].id, set()).add(key)
            req.setdefault(e.id, set()).add(key)
            continue
        req.setdefault(e.id, set()).add(key)
    for e in prog.ents:
        if e.attrs.get("same_name_binding") is not None:
            b = e.attrs["same_name_binding"]
            opt.setdefault(b.id, set()).update(req.get(e.id, set()))
    return req, opt


def in_string_or_comment(line, col):
    q = None
    for i, c in enumerate(line):
        if i == col:
            return "in-character-literal" if q else None
        if q:
            if c == q:
                q = None
        elif c in "'\"":
            q = c
        elif c == "!":
            return "in-comment" if col > i else None
    return None


def in_select_type_of(r, key, ent):
    """Is the occurrence at `key` inside a SELECT TYPE construct whose selector is `ent` (or on its SELECT TYPE line)?"""
    for o in r.occs:
        if (o.file, o.line, o.col) == tuple(key[:3]):
            return any(d is ent for d, _ in getattr(o.stmt, "seltype", ()))
    return False


def hides_homonym(r, key, ent):
    occ0 = [o for o in r.occs if (o.file, o.line, o.col) == tuple(key[:3])]
    if not occ0 or occ0[0].scope is None:
        return False
    o = occ0[0]
    if o.role == "member":
        # a component / binding reached through obj%...: what matters is the name of the first object of the chain
        toks = o.stmt.toks
        root = toks[fmodel.chain_root_index(toks, o.tok_i)]
        if isinstance(root, fmodel.Ref):
            return any(x is not root.ent for x in fws._reachable_through_hidden(o.scope, root.spelling()))
        return False
    return any(x is not ent for x in fws._reachable_through_hidden(o.scope, ent.name))


HIDDEN_LABEL = "occurrence-where-a-rename-list-hides-a-homonym-is-bound-to-the-hidden-entity"
SELTYPE_LABEL = "select-type-selector:occurrences-inside-the-construct-are-bound-to-a-stand-in-per-type-guard"


def classify_missing(r, key, ent, all_req, query=None):
    if in_select_type_of(r, key, ent) or (query is not None and in_select_type_of(r, query, ent)):
        # fortls binds the selector name inside 'select type (x)' to a per-region stand-in variable: references / rename
        # from outside do not reach the occurrences inside and vice versa
        return "missed:" + SELTYPE_LABEL
    # the occurrence (or the occurrence the request started from) sits where a rename list hides a homonym of the entity:
    # fortls binds it to that hidden entity
    if hides_homonym(r, key, ent) or (query is not None and hides_homonym(r, query, ent)):
        return "missed:" + HIDDEN_LABEL
    f, ln, c, e = key
    line = r.lines[f][ln]
    n = e - c
    if c - n - 1 >= 0 and line[c - n - 1 : c - 1].lower() == line[c:e].lower():
        return "missed:second-occurrence-one-separator-after-the-first"
    occ = [o for o in r.occs if (o.file, o.line, o.col) == (f, ln, c)]
    role = occ[0].role if occ else "?"
    if role == "remote":
        return "missed:remote-name-in-use-rename-clause"
    return f"missed:{role}:{ent.kind}"


def classify_extra(r, prog, key, ent, query=None):
    f, ln, c, e = key
    if any(o.role == "remote" and o.ent is not ent for o in r.occs if (o.file, o.line, o.col) == (f, ln, c)):
        return "extra:remote-name-in-use-rename-clause-taken-for-a-local-homonym"
    if query is not None and hides_homonym(r, query, ent):
        return "extra:" + HIDDEN_LABEL
    line = r.lines[f][ln] if ln < len(r.lines[f]) else ""
    w = in_string_or_comment(line, c)
    if w:
        return f"extra:{w}"
    occ = [o for o in r.occs if (o.file, o.line, o.col) == (f, ln, c)]
    if not occ:
        return "extra:not-an-identifier-occurrence"
    o = occ[0]
    if o.ent is ent:
        return f"extra:optional?{o.role}"
    if o.scope is not None and ent in fws._reachable_through_hidden(o.scope, o.text):
        return "extra:" + HIDDEN_LABEL
    if o.role == "remote":
        return "extra:remote-name-in-use-rename-clause-taken-for-a-local-homonym"
    return f"extra:bound-to-another-entity({o.ent.kind},{o.role})"


def ranges_of_locations(res, root):
    out = set()
    for x in res or []:
        u = x.get("uri")
        rng = x["range"]
        f = os.path.basename(u) if u else None
        out.add((f, rng["start"]["line"], rng["start"]["character"], rng["end"]["character"]))
    return out


def check_program(ctx, prog, layout, picks, scratch, validate=True):
    layout = dataclasses.replace(layout, split_every=0, join_every=0)
    r = fmodel.render(prog, layout)
    if validate:
        fws.gfortran_sample(ctx, r)
    root = os.path.join(scratch, "c06_ws")
    srv, _ = fws.start(r, root, open_files=False)
    req, opt = occ_sets(r, prog)
    discs = []
    ents = [e for e in prog.ents if e.kind in ENT_KINDS and e.id in req and not e.attrs.get("same_name_binding")]
    cap = 14
    if len(ents) > cap:
        step = len(ents) / cap
        ents = [ents[int((i * step + picks[0]) % len(ents))] for i in range(cap)]
    nreq = 0
    for ei, e in enumerate(ents):
        R, O = req[e.id], opt.get(e.id, set())
        occs = sorted(R)
        remote_pos = {(o.file, o.line, o.col) for o in r.occs if o.ent is e and o.role == "remote"}
        qocc = [k for k in occs if k[:3] not in remote_pos] or occs
        same_line = any(a[:2] == b[:2] for i, a in enumerate(occs) for b in occs[i + 1 :])
        hom = fws.homonyms(prog, e, e.name)
        nontrivial = (len(occs) >= 3 and same_line) or bool(hom)
        ctx.case((hash(tuple(sorted(r.files.items()))), e.id), nontrivial,
                 sample={"entity": e.name, "kind": e.kind, "occurrences": [list(o) for o in occs][:8], "homonyms": len(hom)} if nontrivial and ei % 9 == 0 else None,
                 classes=[f"kind:{e.kind}"] + (["two-on-one-line"] if same_line else []) + (["homonym-exists"] if hom else []))
        qs = [qocc[0], qocc[-1], qocc[picks[ei % len(picks)] % len(qocc)]]
        seen_q = set()
        for qi, q in enumerate(qs):
            if q in seen_q:
                continue
            seen_q.add(q)
            path = os.path.join(root, q[0])
            off = picks[(ei + qi) % len(picks)] % (q[3] - q[2])
            for method in (("textDocument/references", "textDocument/documentHighlight") if qi < 2 else ("textDocument/references",)):
                p = pos_params(path, q[1], q[2] + off)
                if method.endswith("references"):
                    p["context"] = {"includeDeclaration": True}
                resp, _ = srv.request(method, p)
                nreq += 1
                short = method.split("/")[-1]
                if "error" in resp:
                    discs.append(Disc(f"{short}:error", f"{short} on {e.name!r} at {q} -> {str(resp['error'])[:200]}", {"query": [short, q[0], q[1], q[2] + off]}))
                    continue
                got = ranges_of_locations(resp.get("result"), root) if short == "references" else {
                    (os.path.basename(x["uri"]) if "uri" in x else q[0], x["range"]["start"]["line"], x["range"]["start"]["character"],
                     x["range"]["end"]["character"]) for x in resp.get("result") or []}
                miss, extra = R - got, got - R - O
                for k in sorted(miss)[:3]:
                    discs.append(Disc(classify_missing(r, k, e, R, q), f"{short} on {e.kind} {e.name!r} from {q[:3]}: missing {k} "
                                      f"({r.lines[k[0]][k[1]].strip()[:70]!r})", {"query": [short, q[0], q[1], q[2] + off], "missing": list(k)}))
                for k in sorted(extra)[:3]:
                    discs.append(Disc(classify_extra(r, prog, k, e, q), f"{short} on {e.kind} {e.name!r} from {q[:3]}: extra {k} "
                                      f"({(r.lines[k[0]][k[1]] if k[0] in r.lines and k[1] < len(r.lines[k[0]]) else '?').strip()[:70]!r})",
                                      {"query": [short, q[0], q[1], q[2] + off], "extra": list(k)}))
        # rename from one occurrence
        q = qs[2]
        path = os.path.join(root, q[0])
        p = pos_params(path, q[1], q[2])
        p["newName"] = NEWNAME
        resp, _ = srv.request("textDocument/rename", p)
        nreq += 1
        if "error" in resp:
            discs.append(Disc("rename:error", f"rename on {e.name!r} at {q} -> {str(resp['error'])[:200]}", {"query": ["rename", q[0], q[1], q[2]]}))
            continue
        changes = (resp.get("result") or {}).get("changes") or {}
        got = set()
        bad_text = None
        for u, edits in changes.items():
            f = os.path.basename(u)
            for ed in edits:
                rg = ed["range"]
                k = (f, rg["start"]["line"], rg["start"]["character"], rg["end"]["character"])
                got.add(k)
                if ed.get("newText") != NEWNAME:
                    bad_text = ("newText", k, ed.get("newText"))
                elif rg["start"]["line"] != rg["end"]["line"] or f not in r.lines or r.lines[f][k[1]][k[2] : k[3]].lower() != e.name.lower():
                    bad_text = ("range-does-not-span-the-identifier", k, r.lines.get(f, [""] * (k[1] + 1))[k[1]][k[2] : k[3]] if f in r.lines else None)
        if bad_text:
            discs.append(Disc(f"rename:{bad_text[0]}", f"rename of {e.name!r}: edit {bad_text[1]} has {bad_text[2]!r}", {"query": ["rename", q[0], q[1], q[2]]}))
        miss, extra = R - got, got - R - O
        for k in sorted(miss)[:3]:
            discs.append(Disc(classify_missing(r, k, e, R, q), f"rename of {e.kind} {e.name!r} from {q[:3]}: no edit for {k} "
                              f"({r.lines[k[0]][k[1]].strip()[:70]!r})", {"query": ["rename", q[0], q[1], q[2]], "missing": list(k)}))
        for k in sorted(extra)[:3]:
            discs.append(Disc(classify_extra(r, prog, k, e, q), f"rename of {e.kind} {e.name!r} from {q[:3]}: edits {k} "
                              f"({(r.lines[k[0]][k[1]] if k[0] in r.lines and k[1] < len(r.lines[k[0]]) else '?').strip()[:70]!r})",
                              {"query": ["rename", q[0], q[1], q[2]], "extra": list(k)}))
        # round trip (only when the edit set was exactly right, otherwise the above already reports)
        if not miss and not extra and not bad_text and ei % 3 == 0:
            discs += round_trip(ctx, r, e, got, scratch)
    ctx.extra["requests"] = ctx.extra.get("requests", 0) + nreq
    return discs, r


def round_trip(ctx, r, e, edits, scratch):
    """Apply the rename, re-index, every edited occurrence must resolve to the renamed declaration."""
    files = {}
    for f, lines in r.lines.items():
        new = list(lines)
        for k in sorted([k for k in edits if k[0] == f], key=lambda k: (k[1], -k[2])):
            pass
        byline = {}
        for k in edits:
            if k[0] == f:
                byline.setdefault(k[1], []).append(k)
        shift = {}
        for ln, ks in byline.items():
            for k in sorted(ks, key=lambda k: -k[2]):
                new[ln] = new[ln][: k[2]] + NEWNAME + new[ln][k[3] :]
        files[f] = r.layout.eol.join(new) + r.layout.eol
    root = os.path.join(scratch, "c06_rt")
    shutil.rmtree(root, ignore_errors=True)
    os.makedirs(root)
    for f, t in files.items():
        with open(os.path.join(root, f), "w", newline="") as fh:
            fh.write(t)
    srv = Server(root=root, argv=fws.ARGV)
    # new positions: edits on the same line before a position shift it
    discs = []
    targets = set()
    newpos = []
    for k in sorted(edits):
        before = [j for j in edits if j[0] == k[0] and j[1] == k[1] and j[2] < k[2]]
        col = k[2] + sum(len(NEWNAME) - (j[3] - j[2]) for j in before)
        newpos.append((k[0], k[1], col))
    for (f, ln, col) in newpos:
        resp, _ = srv.request("textDocument/definition", pos_params(os.path.join(root, f), ln, col + 1))
        res = resp.get("result")
        targets.add((os.path.basename(res["uri"]), res["range"]["start"]["line"], res["range"]["start"]["character"]) if isinstance(res, dict) else None)
    ctx.event("rename-round-trips")
    if len(targets) != 1 or None in targets or next(iter(targets)) not in set(newpos):
        discs.append(Disc("rename-round-trip:occurrences-no-longer-resolve-to-one-renamed-declaration",
                          f"after renaming {e.kind} {e.name!r}: definition targets {sorted(map(str, targets))}", {"entity": e.name}))
    shutil.rmtree(root, ignore_errors=True)
    return discs


case_st = st.tuples(fmodel.program_st(), fmodel.layout_st, st.lists(st.integers(0, 50), min_size=3, max_size=7))


def dollar_program(k):
    """A hand-built program whose names contain '$' (legal for fortls / many compilers, not std)."""
    from harness.fmodel import Ent, FileModel, Program, Ref, Scope, Stmt

    names = [["x$y", "x", "y"], ["a$", "a", "a$b"], ["v$1", "v", "v$12"]][k % 3]
    msc = Scope("module")
    m = Ent(0, "m_dollar", "module", None)
    m.inner = msc
    msc.ent = m
    ents = [m]
    f = FileModel("f0.f90")
    st_ = f.stmts
    st_.append(Stmt(["module ", Ref(m, "decl")], kind="open-unit", scope=msc))
    st_.append(Stmt(["implicit none"], depth=1, scope=msc))
    vs = []
    for i, n in enumerate(names):
        e = Ent(i + 1, n, "variable", msc, typ="integer")
        msc.declared[n] = e
        ents.append(e)
        vs.append(e)
        st_.append(Stmt(["integer :: ", Ref(e, "decl")], kind="decl", depth=1, scope=msc))
    st_.append(Stmt(["contains"], kind="contains", scope=msc))
    p = Ent(9, "s_dollar", "subroutine", msc)
    psc = Scope("subroutine", p, msc)
    p.inner = psc
    ents.append(p)
    st_.append(Stmt(["subroutine ", Ref(p, "decl"), "()"], kind="open-proc", depth=1, scope=psc))
    a, b, c = vs
    st_.append(Stmt([Ref(a, "use"), " = ", Ref(b, "use"), "+", Ref(c, "use"), "+", Ref(a, "use"), "*", Ref(a, "use")], depth=2, scope=psc, simple=True))
    st_.append(Stmt([Ref(b, "use"), " = ", Ref(b, "use"), "-", Ref(b, "use"), " + ", Ref(c, "use"), "/", Ref(a, "use")], depth=2, scope=psc, simple=True))
    st_.append(Stmt([Ref(c, "use"), " = ", Ref(c, "use"), "*", Ref(c, "use")], depth=2, scope=psc, simple=True))
    st_.append(Stmt(["end subroutine ", Ref(p, "endname")], kind="close-proc", depth=1, scope=psc))
    st_.append(Stmt(["end module ", Ref(m, "endname")], kind="close-unit", scope=msc))
    return Program([f], ents, [m], [msc], {"same_line_dups": 1})


def indirect_program(k):
    """Hand-built programs in which an entity is used in a file that has no USE path to the module declaring it:
    k=0: a component reached through an object whose type the file does not import (b: 'use a, only: t', 'type(t) :: obj';
         program: 'use b, only: obj', 'obj%v'); k=1: a module variable used in a submodule that lives in its own file
         (host association); k=2: both, with the program also renaming the object."""
    from harness.fmodel import Ent, FileModel, Program, Ref, Scope, Stmt

    ents, files, tops, mods = [], [], [], []

    def ent(name, kind, scope, **kw):
        e = Ent(len(ents), name, kind, scope, **kw)
        ents.append(e)
        return e

    # file 0: module ia_mod with type ia_t (components v, w) and variable total
    f0 = FileModel("f0.f90")
    files.append(f0)
    ma = ent("ia_mod", "module", None)
    sa = Scope("module", ma)
    ma.inner = sa
    tops.append(sa)
    mods.append(ma)
    f0.units.append(ma)
    t = ent("ia_t", "type", sa)
    sa.declared["ia_t"] = t
    tsc = Scope("type", t, sa)
    t.inner = tsc
    v = ent("v", "component", tsc, typ="integer")
    w = ent("w", "component", tsc, typ="integer")
    t.members += [v, w]
    total = ent("total", "variable", sa, typ="integer")
    sa.declared["total"] = total
    f0.stmts += [Stmt(["module ", Ref(ma, "decl")], kind="open-unit", scope=sa, opens=ma), Stmt(["implicit none"], depth=1, scope=sa),
                 Stmt(["type :: ", Ref(t, "decl")], kind="open-type", depth=1, scope=sa, opens=t),
                 Stmt(["integer :: ", Ref(v, "decl")], kind="decl", depth=2, scope=sa), Stmt(["integer :: ", Ref(w, "decl")], kind="decl", depth=2, scope=sa),
                 Stmt(["end type ", Ref(t, "endname")], kind="close-type", depth=1, scope=sa, closes=t),
                 Stmt(["integer :: ", Ref(total, "decl")], kind="decl", depth=1, scope=sa)]
    if k >= 1:
        f0.stmts += [Stmt(["interface"], kind="open-interface", depth=1, scope=sa), Stmt(["module subroutine ia_add(n)"], depth=2, scope=sa),
                     Stmt(["integer, intent(in) :: n"], depth=3, scope=sa), Stmt(["end subroutine ia_add"], depth=2, scope=sa),
                     Stmt(["end interface"], kind="close-interface", depth=1, scope=sa)]
    f0.stmts.append(Stmt(["end module ", Ref(ma, "endname")], kind="close-unit", scope=sa, closes=ma))
    # file 1: module ib_mod: use ia_mod, only: ia_t ; type(ia_t), public :: obj
    f1 = FileModel("f1.f90")
    files.append(f1)
    mb = ent("ib_mod", "module", None)
    sb = Scope("module", mb)
    mb.inner = sb
    tops.append(sb)
    mods.append(mb)
    f1.units.append(mb)
    obj = ent("obj", "variable", sb, typ=("type", t))
    sb.declared["obj"] = obj
    f1.stmts += [Stmt(["module ", Ref(mb, "decl")], kind="open-unit", scope=sb, opens=mb),
                 Stmt(["use ", Ref(ma, "usemod"), ", only: ", Ref(t, "only")], kind="use", depth=1, scope=sb), Stmt(["implicit none"], depth=1, scope=sb),
                 Stmt(["type(", Ref(t, "typeref"), "), public :: ", Ref(obj, "decl")], kind="decl", depth=1, scope=sb),
                 Stmt(["end module ", Ref(mb, "endname")], kind="close-unit", scope=sb, closes=mb)]
    # file 2: program: use ib_mod, only: obj [=> alias]; obj%v = obj%v + obj%w
    f2 = FileModel("f2.f90")
    files.append(f2)
    pp = ent("ic_main", "program", None)
    sp = Scope("program", pp)
    pp.inner = sp
    tops.append(sp)
    f2.units.append(pp)
    loc = "o_alias" if k == 2 else "obj"
    use_toks = ["use ", Ref(mb, "usemod"), ", only: "] + ([Ref(obj, "alias", loc), " => ", Ref(obj, "remote")] if k == 2 else [Ref(obj, "only")])
    f2.stmts += [Stmt(["program ", Ref(pp, "decl")], kind="open-unit", scope=sp, opens=pp), Stmt(use_toks, kind="use", depth=1, scope=sp),
                 Stmt(["implicit none"], depth=1, scope=sp),
                 Stmt([Ref(obj, "use", loc), "%", Ref(v, "member"), " = ", Ref(obj, "use", loc), "%", Ref(v, "member"), " + ", Ref(obj, "use", loc), "%", Ref(w, "member")],
                      depth=1, scope=sp, simple=True),
                 Stmt(["print *, ", Ref(obj, "use", loc), "%", Ref(w, "member"), ", 'v w total'  ! v w total"], depth=1, scope=sp, simple=True),
                 Stmt(["end program ", Ref(pp, "endname")], kind="close-unit", scope=sp, closes=pp)]
    if k >= 1:
        # file 3: submodule (ia_mod) ia_sub with the separate module procedure using `total` by host association
        f3 = FileModel("f3.f90")
        files.append(f3)
        ssub = Scope("submodule", None, sa)
        f3.stmts += [Stmt(["submodule (", Ref(ma, "usemod"), ") ia_sub"], kind="open-unit", scope=ssub), Stmt(["implicit none"], depth=1, scope=ssub),
                     Stmt(["contains"], kind="contains", scope=ssub), Stmt(["module subroutine ia_add(n)"], depth=1, scope=ssub),
                     Stmt(["integer, intent(in) :: n"], depth=2, scope=ssub),
                     Stmt([Ref(total, "use"), " = ", Ref(total, "use"), " + n"], depth=2, scope=ssub, simple=True),
                     Stmt(["end subroutine ia_add"], depth=1, scope=ssub), Stmt(["end submodule ia_sub"], kind="close-unit", scope=ssub)]
    return Program(files, ents, mods, tops, {"same_line_dups": 1})


def run(ctx):
    for k in range(3):
        if k % ctx.nshards == (ctx.shard + 3) % 3 and 3 <= ctx.shard < 6:
            prog = indirect_program(k)
            discs, r = check_program(ctx, prog, fmodel.PLAIN, [0, 1, 2], ctx.scratch, validate=True)
            for d in discs:
                d.what = "(indirect access) " + d.what
            ctx.event("indirect-access-programs")
            ctx.check(discs, {"files": r.files})
    for k in range(3):
        if k % ctx.nshards == ctx.shard % 3 and ctx.shard < 3:
            prog = dollar_program(k)
            discs, r = check_program(ctx, prog, fmodel.PLAIN, [0, 1, 2], ctx.scratch, validate=False)
            for d in discs:
                d.what = "($ names) " + d.what
            ctx.event("dollar-name-programs")
            ctx.check(discs, {"files": r.files})

    def oracle(v):
        prog, layout, picks = v
        discs, r = check_program(ctx, prog, layout, picks, ctx.scratch)
        if prog.stats.get("same_line_dups"):
            ctx.event("programs-with-i+i")
        if prog.stats.get("quote_mix"):
            ctx.event("programs-with-mixed-quotes-and-!-in-literals-and-comments")
        return discs

    def case_of(v):
        prog, layout, picks = v
        r = fmodel.render(prog, dataclasses.replace(layout, split_every=0, join_every=0))
        return {"files": r.files}

    ctx.hyp(case_st, oracle, max_examples=ctx.n(40, 1000), case_of=case_of, collect=bool(os.environ.get("VERIF_COLLECT")))
    for sig, v in ctx.violations.items():
        if isinstance(v.get("detail"), dict):
            v["case"].update(v["detail"])
        v["case"]["signature"] = sig


def replay(ctx, case):
    """Model-free replay: the saved files, the saved request, and the saved missing/extra range."""
    root = os.path.join(ctx.scratch, "c06_replay")
    shutil.rmtree(root, ignore_errors=True)
    os.makedirs(root)
    for n, t in case["files"].items():
        with open(os.path.join(root, n), "w", newline="") as fh:
            fh.write(t)
    srv = Server(root=root, argv=fws.ARGV)
    if "query" not in case:
        return []
    short, f, ln, col = case["query"]
    p = pos_params(os.path.join(root, f), ln, col)
    if short == "references":
        p["context"] = {"includeDeclaration": True}
    if short == "rename":
        p["newName"] = NEWNAME
    resp, _ = srv.request("textDocument/" + short, p)
    if "error" in resp:
        return [Disc(case.get("signature", "c06:error"), str(resp["error"])[:200])]
    res = resp.get("result")
    got = set()
    if short == "rename":
        for u, edits in ((res or {}).get("changes") or {}).items():
            for ed in edits:
                got.add((os.path.basename(u), ed["range"]["start"]["line"], ed["range"]["start"]["character"], ed["range"]["end"]["character"]))
    else:
        for x in res or []:
            got.add((os.path.basename(x["uri"]) if "uri" in x else f, x["range"]["start"]["line"], x["range"]["start"]["character"], x["range"]["end"]["character"]))
    out = []
    if "missing" in case and tuple(case["missing"]) not in got:
        out.append(Disc(case.get("signature", "c06:missing"), f"{short} still misses {case['missing']}"))
    if "extra" in case and tuple(case["extra"]) in got:
        out.append(Disc(case.get("signature", "c06:extra"), f"{short} still returns {case['extra']}"))
    return out
