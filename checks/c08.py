"""C08 — preprocessor regions and macro table match a reference C preprocessor.

Oracle : harness/ppref.py (written from the C standard, validated against GNU cpp on a sample
         of the very cases generated here; a ppref/cpp disagreement is a harness error).
Compared per case: (1) which code lines are active (pp_skips / pp_defines vs reference),
         (2) which marker declarations `integer :: v_<n>` end up in the index of x.F90,
         (3) the macro table at end of file, (4) the expanded text of every active code line.
Domain : (a) exhaustive conditional skeletons (nesting 2, <=2 #elif per group, constant and
         defined() conditions, #ifdef/#ifndef) x both truth values of the tested name;
         (b) Hypothesis trees with expressions over defined(X) | defined X | ! | && | || | ()
         | comparisons | + - * / %, interleaved #define/#undef, initial pp_defs;
         (c) macro bodies with backslashes, quotes, regex metacharacters, `\\` continuations;
         object-like and function-like macros used in active code lines.
"""
from __future__ import annotations

import itertools
import os
import re
import subprocess

from hypothesis import strategies as st

from harness import ppref
from harness.findings import Disc, exc_signature
from harness.runner import HarnessError

PROPERTY = "C08"
LEVEL = "exploration"
SHARDS = {"quick": 8, "thorough": 16}
RULE = (
    "(a) exhaustive enumeration of conditional skeletons (outer group with an inner group in at most one "
    "branch; openings #if 1|0|defined(A), #ifdef A, #ifndef A; 0-2 #elif with 1|0|defined(A); optional #else) "
    "x A defined or not; (b) Hypothesis trees (depth<=3) of conditionals with drawn integer expressions and "
    "interleaved #define/#undef (only names the reference holds undefined are defined), initial pp_defs; "
    "(c) object-/function-like macro definitions (bodies with backslashes, quotes, regex metacharacters, "
    "continuations) used in active code.  Non-trivial = >=1 #elif or nesting>=2 with at least one active and "
    "one inactive code line, or a macro use expanded in an active line; distinct by (lines, definitions)."
)
ASSUMPTIONS = [
    "a macro is never redefined without #undef, never used in arithmetic with an empty body, never mentioned in another macro's body, in a string or in a comment (documented fortls limitations / invalid C)",
    "function-like macro arguments are simple tokens; a blank separates a macro name/parameter list from its body",
    "expanded lines are compared modulo blanks (cpp trims blanks around macro arguments, fortls keeps them; Fortran free form does not care)",
    "reference preprocessor harness/ppref.py, cross-checked against GNU cpp -P -undef -nostdinc on sampled cases",
]

INT_NAMES = ["NA", "NB", "NC"]
FLAG_NAMES = ["FA", "FB", "FC"]
TXT_NAMES = ["TX", "TY"]
FUN_NAMES = ["FN", "GN"]


# ------------------------------------------------------------------ fortls side
def run_fortls(lines, defs, scratch):
    from fortls.parsers.internal.parser import FortranFile, preprocess_file

    path = os.path.join(scratch, "c08_doc.F90")
    out, skips, defines, table = preprocess_file(list(lines), path, pp_defs=dict(defs), include_dirs=set())
    active = []
    for i in range(len(lines)):
        ln = i + 1
        a = not any(s[0] <= ln <= s[1] for s in skips) and ln not in defines
        active.append(a)
    return out, active, table, skips, defines


def indexed_markers(lines, defs, scratch):
    from fortls.parsers.internal.parser import FortranFile

    path = os.path.join(scratch, "c08_doc.F90")
    f = FortranFile(path)
    f.set_contents(["module c08m"] + list(lines) + ["end module c08m"])
    ast = f.parse(pp_defs=dict(defs), include_dirs=set())
    return {v.name.lower() for v in ast.variable_list}


class _P:
    """Tiny C-precedence parser producing an AST, used only to *label* evaluation mismatches."""

    LEVELS = [["||"], ["&&"], ["==", "!="], ["<", ">", "<=", ">="], ["+", "-"], ["*", "/", "%"]]

    def __init__(self, expr):
        self.t = ppref.tokenize(expr)
        self.i = 0

    def peek(self):
        return self.t[self.i] if self.i < len(self.t) else (None, None)

    def parse(self, lvl=0):
        if lvl == len(self.LEVELS):
            return self.unary()
        left = self.parse(lvl + 1)
        while self.peek()[0] == "op" and self.peek()[1] in self.LEVELS[lvl]:
            op = self.peek()[1]
            self.i += 1
            left = ("bin", op, left, self.parse(lvl + 1))
        return left

    def unary(self):
        k, v = self.peek()
        if k == "op" and v in ("!", "-", "+"):
            self.i += 1
            return ("un", v, self.unary())
        if k == "op" and v == "(":
            self.i += 1
            x = self.parse(0)
            self.i += 1
            return ("paren", x)
        if k == "id" and v == "defined":
            self.i += 1
            if self.peek() == ("op", "("):
                self.i += 3
            else:
                self.i += 1
            return ("defined",)
        self.i += 1
        return ("leaf", k, v)


FEATURE_ORDER = ["division", "modulo", "not-before-binary-operator", "chained-comparison", "logical-value-used-as-integer"]
CMP = ("==", "!=", "<", ">", "<=", ">=")
ARI = ("+", "-", "*", "/", "%")


def expr_features(expr):
    try:
        ast = _P(expr).parse()
    except Exception:
        return []
    feats = set()

    def strip(n):
        while n[0] == "paren":
            n = n[1]
        return n

    def walk(n):
        if n[0] == "paren":
            walk(n[1])
        elif n[0] == "un":
            walk(n[2])
        elif n[0] == "bin":
            _, op, l, r = n
            if op == "/":
                feats.add("division")
            if op == "%":
                feats.add("modulo")
            if op in CMP + ARI:
                for side in (l, r):
                    if side[0] == "un" and side[1] == "!":
                        feats.add("not-before-binary-operator")
                    inner = strip(side)
                    if inner[0] == "bin" and inner[1] in ("&&", "||"):
                        feats.add("logical-value-used-as-integer")
                    if inner[0] == "un" and inner[1] == "!" and op in ARI:
                        pass
            if op in CMP and l[0] == "bin" and l[1] in CMP:
                feats.add("chained-comparison")
            walk(l)
            walk(r)

    walk(ast)
    return [f for f in FEATURE_ORDER if f in feats]


def governing_exprs(lines, i):
    """The #if/#elif expressions of every conditional group enclosing line i (outermost first),
    restricted to the branches that precede line i."""
    depth, out = 0, []
    cur = []
    for j in range(i - 1, -1, -1):
        m = ppref.DIRECTIVE.match(lines[j])
        if not m:
            continue
        d = m.group(1) or ""
        if d == "endif":
            depth += 1
        elif d in ("if", "ifdef", "ifndef"):
            if depth == 0:
                if d == "if":
                    cur.append(m.group(2))
                out = list(reversed(cur)) + out
                cur = []
            else:
                depth -= 1
        elif d == "elif" and depth == 0:
            cur.append(m.group(2))
    return out


def compare(case, scratch):
    lines, defs = case["lines"], case["defs"]
    try:
        ref = ppref.run(lines, defs)
    except ppref.PPDomainError as e:
        raise HarnessError(f"generator produced a case outside the reference domain: {e}: {lines!r}")
    try:
        out, active, table, skips, defines = run_fortls(lines, defs, scratch)
    except Exception as e:
        return [Disc(exc_signature(e, "PP-EXC"), f"preprocess_file raised {type(e).__name__}: {e}")], ref
    discs = []
    # (1) active code lines and executed #define/#undef lines, in file order: everything after the
    # first wrong decision is a consequence of it
    exp_def = {i + 1 for i in ref.defines_active}
    for i, k in enumerate(ref.kinds):
        if k == "code":
            bad = active[i] != ref.active[i]
            what = f"reference active={ref.active[i]}, fortls active={active[i]}"
        elif k == "directive" and re.match(r"\s*#\s*(define|undef)\b", lines[i]):
            bad = ((i + 1) in defines) != ((i + 1) in exp_def)
            what = f"reference executes it: {(i + 1) in exp_def}, fortls: {(i + 1) in defines}"
        else:
            continue
        if bad:
            feats = [f for e in governing_exprs(lines, i) for f in expr_features(e)]
            label = ("pp-if-eval:" + feats[0]) if feats else "region-mismatch"
            discs.append(Disc(label, f"line {i+1} {lines[i]!r}: {what} (skips={skips}); governing {governing_exprs(lines, i)!r}"))
            return discs, ref
    # (2) indexing of markers
    try:
        got = indexed_markers(lines, defs, scratch)
    except Exception as e:
        return [Disc(exc_signature(e, "PARSE-EXC"), f"parse raised {type(e).__name__}: {e}")], ref
    tok = re.compile(r"\bv_\d+\b")
    exp = {t.lower() for i, l in enumerate(lines) if ref.kinds[i] == "code" and ref.active[i] for t in tok.findall(l)}
    allm = {t.lower() for i, l in enumerate(lines) if ref.kinds[i] == "code" for t in tok.findall(l)}
    if got & allm != exp:
        label = "index-mismatch"
        if any(lines[i].rstrip().endswith("&") and ref.kinds[i] == "code" and i + 1 < len(lines) and ref.kinds[i + 1] == "directive"
               for i in range(len(lines))):
            label += ":continuation-across-conditional-directive"
        discs.append(Disc(label, f"indexed markers {sorted(got & allm)} != active markers {sorted(exp)}"))
        return discs, ref
    # (3) macro table
    def norm_body(b):
        return re.sub(r"\s+", "", b)

    t_ref = {}
    for n, m in ref.table.items():
        t_ref[n] = (None if m.params is None else [p.strip() for p in m.params], norm_body(m.body))
    t_got = {}
    for n, v in table.items():
        if isinstance(v, tuple):
            t_got[n] = ([p.strip() for p in v[0].split(",")] if v[0].strip() else [], norm_body(v[1]))
        else:
            t_got[n] = (None, norm_body(str(v)))
    if set(t_ref) != set(t_got):
        discs.append(Disc("macro-table:names", f"defined names: reference {sorted(t_ref)}, fortls {sorted(t_got)}"))
    else:
        for n in sorted(t_ref):
            rp, rb = t_ref[n]
            gp, gb = t_got[n]
            if rb == "" and gb in ("", "True"):
                gb = ""
            if (rp, rb) != (gp, gb):
                discs.append(Disc("macro-table:body" + (":multiline" if case.get("multiline") else ""),
                                  f"macro {n}: reference {(rp, rb)!r}, fortls {(gp, gb)!r}"))
                break
    # (4) expansion of active code lines
    for i, k in enumerate(ref.kinds):
        if k == "code" and ref.active[i] and ref.expanded[i] != lines[i]:
            g, r = out[i], ref.expanded[i]
            if norm_body(g) != norm_body(r):
                label = "expansion"
                mm = re.search(r"\b(?:%s)\s*\(" % "|".join(FUN_NAMES + TXT_NAMES), lines[i])
                if mm:
                    depth, k = 0, mm.end() - 1
                    while k < len(lines[i]):
                        depth += {"(": 1, ")": -1}.get(lines[i][k], 0)
                        if depth == 0:
                            break
                        k += 1
                    if ")" in lines[i][k + 1 :]:
                        # one root cause: arguments are matched by greedy (.*) groups up to the LAST
                        # ')' of the line instead of the call's own closing parenthesis
                        label += ":function-like-call-followed-by-another-rparen"
                discs.append(Disc(label, f"line {i+1} {lines[i]!r}: reference {r!r}, fortls {g!r}"))
                break
    return discs, ref


# ------------------------------------------------------------------ cpp cross-check of the reference
def cpp_check(case):
    """-> None if GNU cpp agrees with ppref on this case, else a description."""
    lines, defs = case["lines"], case["defs"]
    ref = ppref.run(lines, defs)
    cmd = ["cpp", "-P", "-undef", "-nostdinc", "-w", "-E", "-"] + [f"-D{k}={v}" for k, v in defs.items()]
    p = subprocess.run(cmd, input="\n".join(lines) + "\n", capture_output=True, text=True)
    if p.returncode != 0:
        return f"cpp failed: {p.stderr[:300]}"
    outl = [re.sub(r"\s+", "", l) for l in p.stdout.splitlines() if l.strip()]
    exp = [re.sub(r"\s+", "", ref.expanded[i]) for i, k in enumerate(ref.kinds) if k == "code" and ref.active[i]
           and ref.expanded[i].strip()]
    if outl != exp:
        return f"cpp output {outl!r} != reference {exp!r} for {lines!r} defs={defs!r}"
    return None


# ------------------------------------------------------------------ (a) exhaustive skeletons
OPEN = ["#if 1", "#if 0", "#if defined(A)", "#ifdef A", "#ifndef A"]
ELIF = ["#elif 1", "#elif 0", "#elif defined(A)"]


def simple_groups():
    """All single groups as lists of branch headers (+ optional else)."""
    out = []
    for o in OPEN:
        for n in range(0, 3):
            for es in itertools.product(ELIF, repeat=n):
                for has_else in (False, True):
                    out.append([o] + list(es) + (["#else"] if has_else else []))
    return out


def skeleton_lines(outer, inner, pos):
    """outer/inner: header lists; inner placed inside branch `pos` of outer (None = no nesting)."""
    lines, k = [], [0]

    def marker():
        k[0] += 1
        return f"integer :: v_{k[0]}"

    lines.append(marker())
    for bi, h in enumerate(outer):
        lines.append(h)
        lines.append(marker())
        if inner is not None and bi == pos:
            for h2 in inner:
                lines.append("  " + h2 if bi % 2 else h2)
                lines.append(marker())
            lines.append("#endif")
            lines.append(marker())
    lines.append("#endif")
    lines.append(marker())
    return lines


def skeleton_space():
    groups = simple_groups()
    for gi, outer in enumerate(groups):
        yield (gi, None, None)
        for pos in range(len(outer)):
            for ii in range(len(groups)):
                yield (gi, ii, pos)


# ------------------------------------------------------------------ (b,c) Hypothesis generators
def expr_st(depth=3):
    name = st.sampled_from(INT_NAMES + FLAG_NAMES)
    iname = st.sampled_from(INT_NAMES)
    leaf = st.one_of(
        name.map(lambda n: f"defined({n})"),
        name.map(lambda n: f"defined {n}"),
        name.map(lambda n: f"defined( {n} )"),
        st.integers(0, 4).map(str),
        iname,
        st.tuples(iname, st.sampled_from(["==", "!=", "<", ">", "<=", ">="]), st.integers(0, 4)).map(lambda t: f"{t[0]} {t[1]} {t[2]}"),
    )

    def ext(c):
        return st.one_of(
            c.map(lambda e: f"!{e}" if re.fullmatch(r"\w+|defined\(\w+\)", e) else f"!({e})"),
            st.tuples(c, st.sampled_from(["&&", "||"]), c).map(lambda t: f"{t[0]} {t[1]} {t[2]}"),
            c.map(lambda e: f"({e})"),
            st.tuples(c, st.sampled_from(["==", "!=", "<", ">", "+", "-", "*"]), c).map(lambda t: f"({t[0]}) {t[1]} ({t[2]})"),
            st.tuples(c, st.sampled_from(["/", "%"]), st.integers(1, 3)).map(lambda t: f"({t[0]}) {t[1]} {t[2]}"),
        )

    return st.recursive(leaf, ext, max_leaves=5)


TXT_BODIES = ["1.0d0", "a\\b", "x\\1y", "\\g<1>", "'q'", '"dq"', "a.*b", "[0-9]+", "(x)", "$end^", "p|q", "r{2}", "v_tx + 1", "1 \\"]
FUN_BODIES = ["a + b", "(a)*(b)", "a\\b", "b, a", "'q' / b", "a(b)", "a%b", "[a]", "a .and. b", "a**b \\"]

plan_item = st.deferred(lambda: st.one_of(
    st.just(["code"]), st.just(["code"]),
    st.tuples(st.just("contcond"), st.sampled_from(INT_NAMES + FLAG_NAMES), st.booleans()).map(list),
    st.tuples(st.just("defint"), st.sampled_from(INT_NAMES), st.integers(0, 4)).map(list),
    st.tuples(st.just("defflag"), st.sampled_from(FLAG_NAMES)).map(list),
    st.tuples(st.just("undef"), st.sampled_from(INT_NAMES + FLAG_NAMES)).map(list),
    st.tuples(st.just("cond"), st.sampled_from(["if", "if", "ifdef", "ifndef"]), st.sampled_from(INT_NAMES + FLAG_NAMES),
              st.lists(st.tuples(expr_st(), plan_block), min_size=1, max_size=3), st.one_of(st.none(), plan_block)).map(list),
))
plan_block = st.lists(plan_item, min_size=0, max_size=4)


@st.composite
def tree_case_st(draw):
    defs = {}
    for n in draw(st.lists(st.sampled_from(INT_NAMES), unique=True, max_size=2)):
        defs[n] = str(draw(st.integers(0, 3)))
    for n in draw(st.lists(st.sampled_from(FLAG_NAMES), unique=True, max_size=2)):
        defs[n] = "1"
    plan = draw(plan_block.filter(lambda b: len(b) > 0))
    return {"kind": "tree", "defs": defs, "plan": plan}


@st.composite
def macro_case_st(draw):
    """One or two rounds of (definitions, uses).  In the second round a macro of the first one may be defined again
    (after the #undef realise() inserts) with another body or as the other kind (object-like <-> function-like)."""
    plan_rounds = []
    kind_of = {}
    redefined = False
    for rnd in range(draw(st.integers(1, 2))):
        items = []
        touched = []
        for _ in range(draw(st.integers(1, 3))):
            as_fun = draw(st.booleans())
            pool = (FUN_NAMES if as_fun else TXT_NAMES)
            if rnd == 1 and kind_of and draw(st.booleans()):
                pool = sorted(kind_of)  # re-define something from the first round, either kind
            name = draw(st.sampled_from(pool))
            if name in touched:
                continue
            touched.append(name)
            if name in kind_of:
                redefined = True
            if as_fun:
                body = draw(st.sampled_from(FUN_BODIES))
                spaced = draw(st.booleans())
                items.append(["deffun", name, "( a , b )" if spaced else "(a,b)", body])
                kind_of[name] = "fun"
            else:
                body = draw(st.sampled_from(TXT_BODIES))
                items.append(["deftxt", name, body])
                kind_of[name] = "txt"
        if not touched:
            continue
        uses = []
        for _ in range(draw(st.integers(1, 3))):
            nm = draw(st.sampled_from(sorted(touched) if rnd == 1 else sorted(kind_of)))
            if kind_of[nm] == "txt":
                tmpl = draw(st.sampled_from(["x = {}", "call s({}, 1)", "y = {} + {}", "  z({}) = 2", "{}"]))
                uses.append(["use", tmpl.replace("{}", nm)])
            else:
                a1 = draw(st.sampled_from(["p", "1", "q2", "x_y"]))
                a2 = draw(st.sampled_from(["r", "2", "k"]))
                form = draw(st.integers(0, 9))
                if form == 0:
                    uses.append(["use", f"w = {nm}({a1}, {a2}) + {nm}({a2},{a1})"])
                elif form == 1:
                    uses.append(["use", f"w = {nm}(f({a1}), {a2})"])
                else:
                    tmpl = draw(st.sampled_from(["w = {}", "call t({})", "  {}", "if ({} > 0) w = 1"]))
                    sp = draw(st.sampled_from(["", " "]))
                    uses.append(["use", tmpl.replace("{}", f"{nm}{sp}({a1},{sp}{a2})")])
        plan_rounds.append((items, uses))
    if not plan_rounds:
        plan_rounds = [([["deftxt", TXT_NAMES[0], TXT_BODIES[0]]], [["use", f"x = {TXT_NAMES[0]}"]])]
    wrap = draw(st.integers(0, 3))
    plan = []
    for items, uses in plan_rounds:
        if wrap == 1:
            plan += items + [["cond", "if", "NA", [["1", uses]], [["code"]]]]
        elif wrap == 2:
            plan += items + [["cond", "if", "NA", [["0", [["code"]]]], uses]]
        else:
            plan += items + uses
    return {"kind": "macro", "defs": {}, "plan": plan, "redefined": redefined}


def realise(case):
    """plan -> concrete lines, obeying the domain with a live reference preprocessor."""
    if "lines" in case:
        return case
    pp = ppref.PP(case["defs"])
    lines = []
    k = [0]
    multiline = [False]

    def emit(l):
        lines.append(l)
        pp.feed(l)

    def define(name, text):
        if pp.cur_active() and name in pp.table:
            emit(f"#undef {name}")
        emit(text)

    def block(items):
        for it in items:
            t = it[0]
            if t == "code":
                k[0] += 1
                emit(f"integer :: v_{k[0]}")
            elif t == "contcond":
                # the usual idiom: one statement continued across a conditional
                k[0] += 3
                emit(f"integer :: v_{k[0]-2}, &")
                emit(f"#ifdef {it[1]}" if it[2] else f"#if defined({it[1]}) && 1")
                emit(f"  v_{k[0]-1}")
                emit("#else")
                emit(f"  v_{k[0]}")
                emit("#endif")
            elif t == "use":
                k[0] += 1
                emit(it[1].replace("w =", f"w{k[0]} =") if "w =" in it[1] else it[1] + f"  ; u_{k[0]} = 0")
            elif t == "defint":
                define(it[1], f"#define {it[1]} {it[2]}")
            elif t == "defflag":
                define(it[1], f"#define {it[1]} 1" if it[1] == "FC" else f"#define {it[1]}")
            elif t == "deftxt":
                body = it[2]
                if body.endswith("\\"):
                    multiline[0] = True
                    define(it[1], f"#define {it[1]} {body}")
                    emit("   + cont_tail")
                else:
                    define(it[1], f"#define {it[1]} {body}")
            elif t == "deffun":
                body = it[3]
                if body.endswith("\\"):
                    multiline[0] = True
                    define(it[1], f"#define {it[1]}{it[2]} {body}")
                    emit("   * tail2")
                else:
                    define(it[1], f"#define {it[1]}{it[2]} {body}")
            elif t == "undef":
                emit(f"#undef {it[1]}")
            elif t == "cond":
                _, op, name, branches, els = it
                first = True
                for expr, blk in branches:
                    if first:
                        if op == "if":
                            emit(f"#if {safe_expr(expr, pp)}")
                        else:
                            emit(f"#{op} {name}")
                        first = False
                    else:
                        emit(f"#elif {safe_expr(expr, pp)}")
                    block(blk)
                if els is not None:
                    emit("#else")
                    block(els)
                emit("#endif")

    block(case["plan"])
    pp.finish()
    return {"lines": lines, "defs": case["defs"], "multiline": multiline[0], "kind": case.get("kind", "tree")}


def safe_expr(expr, pp):
    return expr


# ------------------------------------------------------------------ driver
def nontrivial(case, ref):
    lines = case["lines"]
    act = [ref.active[i] for i, k in enumerate(ref.kinds) if k == "code"]
    depth = maxd = 0
    for l in lines:
        m = ppref.DIRECTIVE.match(l)
        if m and (m.group(1) or "") in ("if", "ifdef", "ifndef"):
            depth += 1
            maxd = max(maxd, depth)
        elif m and (m.group(1) or "") == "endif":
            depth -= 1
    has_elif = any(re.match(r"\s*#\s*elif", l) for l in lines)
    expanded = any(k == "code" and ref.active[i] and ref.expanded[i] != lines[i] for i, k in enumerate(ref.kinds))
    return ((has_elif or maxd >= 2) and any(act) and not all(act)) or expanded


def make_oracle(ctx, cpp_every):
    state = {"n": 0, "cpp": 0}

    def oracle(case):
        c = realise(case)
        discs, ref = compare(c, ctx.scratch)
        state["n"] += 1
        if cpp_every and state["n"] % cpp_every == 0:
            msg = cpp_check(c)
            state["cpp"] += 1
            ctx.extra["reference_cross_checked_with_gnu_cpp"] = ctx.extra.get("reference_cross_checked_with_gnu_cpp", 0) + 1
            if msg:
                raise HarnessError("reference preprocessor disagrees with GNU cpp: " + msg)
        nt = nontrivial(c, ref)
        ctx.case((c["lines"], c["defs"]), nt, sample={"lines": c["lines"], "defs": c["defs"]},
                 classes=[c.get("kind", "?")] + (["nontrivial"] if nt else []))
        return discs

    return oracle


def run(ctx):
    have_cpp = subprocess.run(["which", "cpp"], capture_output=True).returncode == 0
    if not have_cpp:
        ctx.notes["gnu_cpp"] = "not found: reference preprocessor not cross-checked in this run"
    oracle = make_oracle(ctx, 25 if have_cpp else 0)
    # (a) exhaustive skeletons, sharded
    groups = simple_groups()
    stride = 1 if ctx.tier == "thorough" else 9
    n_enum = 0
    for idx, (gi, ii, pos) in enumerate(skeleton_space()):
        if idx % ctx.nshards != ctx.shard:
            continue
        if stride > 1 and ii is not None and (idx // ctx.nshards) % stride != ctx.seed % stride:
            continue
        lines = skeleton_lines(groups[gi], None if ii is None else groups[ii], pos)
        for adef in (False, True):
            case = {"lines": lines, "defs": {"A": "1"} if adef else {}, "kind": "skeleton"}
            ctx.check(oracle(case), case)
            n_enum += 1
    ctx.extra["skeletons_enumerated"] = n_enum
    if stride == 1:
        ctx.notes["exhaustive"] = True
        ctx.notes["exhaustive_space"] = "all outer x inner x position skeletons x {A defined, undefined}"
    # (b) trees, (c) macros
    ctx.hyp(tree_case_st(), oracle, max_examples=ctx.n(2500, 20000), case_of=realise)
    ctx.hyp(macro_case_st(), oracle, max_examples=ctx.n(1000, 8000), case_of=realise)


def replay(ctx, case):
    return compare(realise(case), ctx.scratch)[0]
