"""C03 — indexing is total and terminates on every document text.

Domain : (a) mutational: corpus sources (the repository's 84 samples + generated programs)
         put through truncation / line edits / token splices / random Unicode; (b) statement
         soup: one template per statement reader and preprocessor directive, cut mid-token, in
         random order; (c) thorough tier: Atheris coverage-guided fuzzing of the same entry.
Oracle : parse as x.F90 (preprocessed), x.f90 and x.f: no exception escapes, CPU time <= 10 s,
         the AST is queryable (scope line ranges sane, get_inner_scope total, diagnostics
         computable); through a real server: didOpen / didChange produce no "Error during
         parsing" / "failed" message and documentSymbol answers.
The tested code runs in a child process so that hangs and recursion blow-ups are caught.
"""
from __future__ import annotations

import os
import traceback

from hypothesis import strategies as st

from harness import textmut
from harness.findings import Disc, exc_signature, traceback_signature
from harness.worker import Worker

PROPERTY = "C03"
LEVEL = "exploration"
SHARDS = {"quick": 8, "thorough": 16}
CPU_LIMIT = 10.0
RULE = (
    "Hypothesis: corpus file x 1-6 drawn mutation operators (truncate anywhere, delete/duplicate/swap/join "
    "lines, splice a token from a Fortran+cpp dictionary or random Unicode), and statement-soup documents "
    "(<=25 templates, one family per statement reader and cpp directive, cut mid-token, random order); each "
    "text is indexed as .F90, .f90 and .f, directly and through didOpen/didChange of a real server.  "
    "Non-trivial = text differs from every corpus file and contains a statement/directive cut or spliced "
    "mid-token or lying outside a sensible scope (soup); distinct by content hash."
)
ASSUMPTIONS = [
    "documents <= ~300 lines; CPU bound 10 s per document (measured cost of a 300-line file: ~6 ms)",
    "file content is decoded utf-8/replace exactly like FortranFile.load_from_disk",
]

SUFFIXES = [".F90", ".f90", ".f"]

# Constant headers placed beside every document: the '#include "x.h"' lines of the generated texts (textmut.pp_story_st and
# the statement soup) then really pull in definitions - re-definitions with the other macro kind, headers including each
# other, a header with an unterminated conditional.  They are part of the fixed environment, a case is still its text.
HEADERS = {
    "f.h": "#undef F\n#define F(a) ((a) * 2)\n",
    "g.h": "#define G 2\n#ifdef F\n#undef F\n#define F G\n#endif\n",
    "mac.h": "#ifdef MAC\n#undef MAC\n#endif\n#define MAC(a,b) a+b\n",
    "other.h": "#define OTHER MAC\n#define MAC OTHER\n",
    "n_.h": '#include "n_x.h"\n#undef N_\n#define N_(x) x\n',
    "n_x.h": '#define N_X 1\n#include "n_.h"\n#if N_X\n',
    "a.h": "#define a b\n#define b a\n", "foo.h": "#define foo(x) foo(x)\n#if\n", "x.h": "      integer :: from_header\n#else\n",
    "n.h": "#define n(a,b) a\\\n", "val.h": "#undef val\n", "self.h": '#include "self.h"\n', "t1.h": "#elif 1\n#endif\n#endif\n",
}


def place_headers(d):
    os.makedirs(d, exist_ok=True)
    for n, t in HEADERS.items():
        p = os.path.join(d, n)
        if not os.path.exists(p):
            with open(p, "w") as fh:
                fh.write(t)


# ------------------------------------------------------------------ runs in the worker
def execute(text: str, scratch: str, l1: bool):
    """-> list of (sig, what) tuples.  Must not raise."""
    import re

    from fortls.parsers.internal.parser import FortranFile, splitlines

    out = []
    norm = re.sub(r"\t", " ", text)
    place_headers(scratch)
    for suf in SUFFIXES:
        path = os.path.join(scratch, "c03_doc" + suf)
        try:
            f = FortranFile(path)
            f.set_contents(splitlines(norm))
            ast = f.parse(pp_defs={}, include_dirs=set())
        except RecursionError as e:
            out.append((exc_signature(e, "PARSE-EXC"), f"parse({suf}) raised RecursionError"))
            continue
        except Exception as e:
            out.append((exc_signature(e, "PARSE-EXC"), f"parse({suf}) raised {type(e).__name__}: {e}"))
            continue
        try:
            f.ast = ast
            n = f.nLines
            for sc in ast.get_scopes():
                if not (isinstance(sc.sline, int) and isinstance(sc.eline, int) and 1 <= sc.sline <= sc.eline <= n + 1):
                    out.append(("AST:scope-range", f"{suf}: scope {sc.name!r} has lines {sc.sline}..{sc.eline} of {n}"))
                    break
            for ln in range(0, n + 2):
                ast.get_inner_scope(ln)
                ast.get_scopes(ln)
            # what the server does after a (re)load: register top-level units, link, diagnose
            obj_tree = {m.FQSN: [m, None] for m in _intrinsic_mods()}
            obj_tree.update({k: [v, path] for k, v in ast.global_dict.items()})
            ast.resolve_includes({path: f})
            ast.resolve_links(obj_tree, 1)
            f.check_file(obj_tree, max_line_length=40, max_comment_line_length=40)
        except RecursionError as e:
            out.append((exc_signature(e, "QUERY-EXC"), f"index of {suf} not queryable: RecursionError"))
        except Exception as e:
            out.append((exc_signature(e, "QUERY-EXC"), f"index of {suf} not queryable: {type(e).__name__}: {e}"))
    if l1 and not out:
        # the server path only adds information when the direct path found nothing
        out += execute_l1(text, scratch)
    return out


_IMODS = None


def _intrinsic_mods():
    global _IMODS
    if _IMODS is None:
        from fortls.parsers.internal.intrinsics import load_intrinsics

        _IMODS = load_intrinsics()[3]
    return _IMODS


def execute_l1(text: str, scratch: str):
    from harness.lsp import Server, uri_of

    out = []
    for suf in (".F90", ".f90"):
        d = os.path.join(scratch, "c03_ws")
        os.makedirs(d, exist_ok=True)
        for fn in os.listdir(d):
            os.unlink(os.path.join(d, fn))
        place_headers(d)
        path = os.path.join(d, "doc" + suf)
        with open(path, "w", encoding="utf-8", newline="") as fh:
            fh.write("program seed\nend program seed\n")
        srv = Server(root=d)
        with open(path, "w", encoding="utf-8", newline="") as fh:
            fh.write(text)
        for step, outs in (("didOpen", srv.did_open(path)), ("didChange", srv.did_change(path, [{"text": text}]))):
            for o in outs:
                if o.get("method") == "window/showMessage" and o["params"].get("type") == 1:
                    out.append((f"L1:{step}:message:" + _msg_class(o["params"]["message"]),
                                f"{step}({suf}) -> showMessage {o['params']['message']!r}"))
                if "error" in o:
                    out.append((f"L1:{step}:error-response:" + _msg_class(str(o["error"].get("message"))),
                                f"{step}({suf}) -> error response {o['error'].get('message')!r}"))
        resp, _ = srv.request("textDocument/documentSymbol", {"textDocument": {"uri": uri_of(path)}})
        if "error" in resp or not isinstance(resp.get("result"), list):
            out.append(("L1:documentSymbol", f"documentSymbol({suf}) -> {str(resp)[:200]}"))
        # start-up path (workspace_init): the same file must not be refused
        srv2 = Server(root=d)
        for o in srv2.init_notes:
            if o.get("method") == "window/showMessage" and "failed" in str(o["params"].get("message")):
                out.append(("L1:initialize:message:" + _msg_class(o["params"]["message"]),
                            f"initialize({suf}) -> showMessage {o['params']['message']!r}"))
        if srv2.file(path) is None:
            out.append(("L1:initialize:file-dropped", f"{suf} file missing from the start-up index"))
    return out


def _msg_class(msg: str) -> str:
    import re

    msg = re.sub(r"'[^']*'", "'<path>'", msg)
    msg = re.sub(r"/\S+", "<path>", msg)
    return msg[:80]


# ------------------------------------------------------------------ parent side
def nontrivial_of(case, text):
    if "seed" in case:
        return text != textmut.seed_text(case["seed"]) and any(m[0] in ("trunc", "splice", "del_span", "replace_tok", "join_lines")
                                                               for m in case["muts"])
    return True


case_st = st.one_of(textmut.mutated_case_st(), textmut.mutated_case_st(), textmut.soup_st(), textmut.pp_story_st(), textmut.stress_st())


class Runner:
    def __init__(self, ctx):
        self.ctx = ctx
        self.w = Worker("checks.c03:execute")
        self.k = 0

    def discs_for(self, text, l1):
        status, val, cpu = self.w.call((text, self.ctx.scratch, l1), cpu_limit=CPU_LIMIT)
        if status == "timeout":
            return [Disc("TIMEOUT:cpu>10s", f"indexing used more than {CPU_LIMIT}s CPU ({cpu:.1f}s) and was stopped")]
        if status == "died":
            return [Disc(f"DIED:rc={val}", f"indexing killed the interpreter (exit {val})")]
        if isinstance(val, dict) and "harness_error" in val:
            from harness.runner import HarnessError

            raise HarnessError(val["harness_error"])
        return [Disc(sig, what) for sig, what in val]

    def oracle(self, case):
        text = textmut.resolve_case(case)
        if len(text) > 20000:
            text = text[:20000]
        self.k += 1
        l1 = self.k % 4 == 0
        kind = "mut" if "seed" in case else "soup"
        self.ctx.case(text, nontrivial_of(case, text),
                      sample={"kind": kind, "case": case if kind == "mut" else None, "text": text[:400]},
                      classes=[kind] + (["L1"] if l1 else []) + (["has-cpp"] if "#" in text else []))
        return self.discs_for(text, l1)


def run(ctx):
    r = Runner(ctx)
    try:
        # the unmutated corpus first (shard 0): every sample must index
        if ctx.shard == 0:
            for name, text in textmut.corpus():
                ctx.case(text, False, classes=["corpus"])
                ctx.check(r.discs_for(text, True), {"text": text, "name": name})
        ctx.hyp(case_st, r.oracle, max_examples=ctx.n(1200, 40000), collect=True,
                case_of=lambda c: {"text": textmut.resolve_case(c)[:20000], "from": c if "seed" in c else None})
        minimise(ctx, r)
        if ctx.tier == "thorough":
            try:
                from checks import c03_fuzz
            except ImportError:
                c03_fuzz = None
            if c03_fuzz is not None:
                c03_fuzz.campaign(ctx, r)
    finally:
        r.w.close()


def minimise(ctx, r):
    """ddmin every collected violation (same signature must persist)."""
    from harness.ddmin import minimize_text

    budget = 20.0 if ctx.tier == "quick" else 60.0
    for sig, v in list(ctx.violations.items()):
        text = v["case"].get("text")
        if not isinstance(text, str):
            continue
        l1 = sig.startswith("L1")
        small = minimize_text(text, lambda t: any(d.sig == sig for d in r.discs_for(t, l1)), budget)
        v["case"] = {"text": small, "minimised_from_chars": len(text)}


def replay(ctx, case):
    r = Runner(ctx)
    try:
        return r.discs_for(case["text"], True)
    finally:
        r.w.close()
