#!/usr/bin/env python
"""Atheris (libFuzzer) target for C03: coverage-guided fuzzing of FortranFile.parse for .F90/.f90/.f.
The semantic oracle (no exception, queryable index) sits inside the target; a discrepancy does not
abort the campaign: the input is saved under <out>/findings and fuzzing continues, so that one shallow
defect cannot hide what lies behind it.  Usage: c03_atheris.py <out_dir> <corpus_dir> [libFuzzer flags]"""
import hashlib
import os
import sys

HERE = os.path.dirname(os.path.dirname(os.path.abspath(__file__)))
sys.path[:0] = [os.environ.get("VERIF_REPO", "/repo"), HERE, os.path.join(HERE, ".deps")]

import atheris  # noqa: E402

with atheris.instrument_imports(include=["fortls"]):
    import fortls.parsers.internal.parser  # noqa: F401,E402

import logging  # noqa: E402

logging.disable(logging.CRITICAL)
from checks import c03  # noqa: E402

OUT = sys.argv[1]
os.makedirs(os.path.join(OUT, "findings"), exist_ok=True)
SEEN = set()
COUNT = {"n": 0}


def target(data: bytes):
    text = data.decode("utf-8", "replace")
    COUNT["n"] += 1
    res = c03.execute(text, OUT, False)
    for sig, what in res:
        if sig not in SEEN:
            SEEN.add(sig)
            with open(os.path.join(OUT, "findings", hashlib.sha1(sig.encode()).hexdigest()[:12] + ".txt"), "wb") as fh:
                fh.write(data)
    if COUNT["n"] % 2000 == 0:
        with open(os.path.join(OUT, "count"), "w") as fh:
            fh.write(str(COUNT["n"]))


atheris.Setup([sys.argv[0]] + sys.argv[2:], target)
atheris.Fuzz()
