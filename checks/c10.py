"""C10 — after saving, answers depend only on the files, not on the edit history.

Domain : a 2-4 file fmodel workspace with cross-file USE / EXTENDS links plus, per file, semantic
         variants computed from the model (rename an exported entity or the module itself in that
         file only, add a component / variable, drop an exported declaration, swap in the file of a
         different program) and extra files; histories of open / change (full or ranged) / save /
         close / create / delete / external-modification-then-save, drawn by Hypothesis; at the end
         every open document is saved.
Oracle : differential against a FRESH server initialised on the same directory: identical
         normalised battery (harness/battery.py: indexed files, diagnostics, outline, workspace
         symbols, definition + hover at sampled identifiers, references + completion at a subset).
"""
from __future__ import annotations

import json
import os
import re
import shutil

from hypothesis import strategies as st

from harness import battery, fmodel, fws
from harness.findings import Disc, exc_signature
from harness.lsp import Server

PROPERTY = "C10"
LEVEL = "exploration"
SHARDS = {"quick": 8, "thorough": 16}
RULE = (
    "Hypothesis: fmodel workspace (2-4 files) x per-file semantic variants x history of 3-14 sync events (open, full/ranged "
    "change to a variant, save, close, create, delete+close, external modification + save), closed by saving every open "
    "document; battery of the long-lived server vs a fresh server on the same directory.  Non-trivial = the history changes "
    "(and saves) a file that another file depends on after the dependent was queried/opened, or deletes/creates a file; "
    "distinct by history hash."
)
ASSUMPTIONS = [
    "deletions are communicated (the deleted document is closed); files do not share preprocessor macro names (plain .f90 files)",
    "top-level unit names stay unique across files in every version",
]


# line-length diagnostics on: they are recomputed on every check and must not pile up over a history
C10_ARGV = fws.ARGV + ["--max_line_length", "50", "--max_comment_line_length", "40"]


# ------------------------------------------------------------------ variants (computed from the model, stored as text)
def variants_of(prog, r, other):
    """{file: [variant texts]} — semantic edits other files depend on."""
    out = {}
    for f in prog.files:
        name = f.name
        lines = list(r.lines[name])
        vs = []
        exported = [e for e in prog.ents if e.scope is not None and e.scope.parent is None and e.scope.ent in f.units
                    and e.kind in ("variable", "subroutine", "function", "type", "interface")]
        occ_here = lambda e: [o for o in r.occs if o.ent is e and o.file == name and o.text.lower() == e.name.lower()]

        def renamed(e, new):
            ls = list(lines)
            for o in sorted(occ_here(e), key=lambda o: (o.line, -o.col)):
                ls[o.line] = ls[o.line][: o.col] + new + ls[o.line][o.col + len(o.text):]
            return "\n".join(ls) + "\n"

        for i, e in enumerate(exported[:2]):
            vs.append(renamed(e, f"rn{i}_{e.name}"))
        for u in f.units[:1]:
            vs.append(renamed(u, "mm_" + u.name[2:] if u.name.startswith(("m_", "p_")) else "mm_" + u.name))
        # add a component to the first type / a public variable after implicit none
        tdecl = [o for o in r.occs if o.file == name and o.role == "decl" and o.ent.kind == "component"]
        if tdecl:
            ls = list(lines)
            ls.insert(tdecl[0].line + 1, " " * 4 + "integer :: added_comp")
            vs.append("\n".join(ls) + "\n")
        imp = [i for i, l in enumerate(lines) if l.strip().lower() == "implicit none"]
        if imp:
            ls = list(lines)
            ls.insert(imp[0] + 1, "  integer, public :: added_var")
            vs.append("\n".join(ls) + "\n")
        vdecl = [o for o in r.occs if o.file == name and o.role == "decl" and o.ent in exported and o.ent.kind == "variable"
                 and re.match(r"\s*(integer|real)[^,]*::\s*\w+\s*$", lines[o.line])]
        if vdecl:
            ls = list(lines)
            del ls[vdecl[0].line]
            vs.append("\n".join(ls) + "\n")
        if other is not None and name in other:
            vs.append(other[name])
        out[name] = vs or [r.files[name] + "! touched\n"]
    return out


@st.composite
def case_st(draw):
    prog = draw(fmodel.program_st(nfiles=(2, 4)))
    r = fmodel.render(prog, fmodel.PLAIN)
    prog2 = draw(fmodel.program_st(nfiles=(len(prog.files), len(prog.files))))
    r2 = fmodel.render(prog2, fmodel.PLAIN)
    names = sorted(r.files)
    other = {n: r2.files[n2] for n, n2 in zip(names, sorted(r2.files))}
    # unit names stay unique in every version of the workspace (ASSUMPTIONS): the units of the swapped-in program get a prefix
    for u in sorted({sc.ent.name for sc in prog2.top_scopes}, key=len, reverse=True):
        other = {n: re.sub(r"(?i)(?<![\w$])" + re.escape(u) + r"(?![\w$])", "o" + u, t) for n, t in other.items()}
    variants = variants_of(prog, r, other)
    extra = {"x_new0.f90": "module xnew0\n  implicit none\n  integer :: xv0\nend module xnew0\n",
             "x_new1.f90": "module xnew1\n  use xnew0\n  implicit none\n  integer :: xv1\ncontains\n  subroutine xs1()\n    xv1 = xv0\n  end subroutine xs1\nend module xnew1\n"}
    files = dict(r.files)
    files.update(BUNDLE)
    for k, v in BUNDLE_VARIANTS.items():
        variants[k] = v
    names = sorted(files)
    # the history is built against a model of the client state so that every event is effective, and (half of the
    # time) concentrates on a group of files that depend on each other
    groups = [["zd1/zd_a.F90", "zd2/zd_b.F90"], ["ze_ext.f90", "ze_use.f90", "za_first.f90"], ["ze_ext.f90", "zf_leaf.f90"], ["ze_ext.f90", "ze_use.f90", "zf_leaf.f90"], ["zs_par.f90", "zs_sub.f90"], ["zi_inc.f90", "zi_main.f90"], ["zq_cfg.h", "zq_a.F90", "zq_b.F90"], sorted(r.files),
              sorted(r.files) + ["ze_ext.f90", "ze_use.f90"]]
    focus = draw(st.sampled_from([None, None, None] + groups))
    pool = (focus or names) + sorted(extra)
    on_disk, is_open, deleted = set(names), set(), set()
    ops = []
    for _ in range(draw(st.integers(3, 14))):
        app = {
            "open": [f for f in pool if f in on_disk and f not in is_open],
            "change": [f for f in pool if f in is_open],
            "save": [f for f in pool if f in is_open],
            "close": [f for f in pool if f in is_open],
            "delete": [f for f in pool if f in on_disk],
            "create": [f for f in pool if f not in on_disk],
            "disk": [f for f in pool if f in on_disk],
            "query": [names[0]],
            "burst": [f for f in pool if f in on_disk and f in ("ze_ext.f90", "zs_par.f90", "zi_inc.f90")],
        }
        weights = ["open", "open", "change", "change", "change", "save", "save", "close", "delete", "delete", "create", "create", "disk", "query", "query"]
        if not any(o[0] == "burst" for o in ops):
            weights = weights + ["burst", "burst"]
        kinds = [k for k in weights if app[k]]
        kind = draw(st.sampled_from(kinds))
        f = draw(st.sampled_from(app[kind]))
        v = draw(st.integers(0, 7))
        mode = draw(st.sampled_from(["full", "ranged"]))
        if kind == "burst":
            mode = draw(st.sampled_from([3, 999, 999, 1000, 1999]))
        ops.append([kind, f, v, mode])
        if kind in ("open", "burst"):
            is_open.add(f)
        elif kind == "close":
            is_open.discard(f)
        elif kind == "delete":
            on_disk.discard(f)
            is_open.discard(f)
            deleted.add(f)
        elif kind == "create":
            on_disk.add(f)
            is_open.add(f)
    return {"files": files, "variants": variants, "extra": extra, "ops": ops}


# hand-written bundle with the link kinds the generator does not produce: Fortran INCLUDE, submodule, cpp
BUNDLE = {
    "zi_inc.f90": "      integer :: inc_var\n      real :: inc_other\n",
    "zi_main.f90": "subroutine zi_user()\n  implicit none\n  include 'zi_inc.f90'\n  inc_var = 1\n  inc_other = 2.0\nend subroutine zi_user\n",
    "zs_par.f90": "module zs_par\n  implicit none\n  type :: zs_t\n    integer :: zc\n  end type zs_t\n  interface\n    module subroutine zs_work(a)\n      integer, intent(in) :: a\n    end subroutine zs_work\n"
                  "    module function zs_dbl(zx) result(zy)\n      integer, intent(in) :: zx\n      integer :: zy\n    end function zs_dbl\n  end interface\nend module zs_par\n",
    # the second implementation uses the MODULE PROCEDURE form: its dummies are declared in the parent's interface body only
    "zs_sub.f90": "submodule (zs_par) zs_sub\n  implicit none\ncontains\n  module subroutine zs_work(a)\n    integer, intent(in) :: a\n    type(zs_t) :: loc\n    loc%zc = a\n  end subroutine zs_work\n"
                  "  module procedure zs_dbl\n    zy = 2 * zx\n  end procedure zs_dbl\nend submodule zs_sub\n",
    "zp_pre.F90": "#define ZP_ON 1\nmodule zp_pre\n  implicit none\n#ifdef ZP_ON\n  integer :: zp_yes\n#else\n  integer :: zp_no\n#endif\nend module zp_pre\n",
    "ze_ext.f90": "module ze_base\n  implicit none\n  type :: ze_p\n    integer :: pc\n  contains\n    procedure :: pb => ze_impl\n  end type ze_p\ncontains\n  subroutine ze_impl(self)\n    class(ze_p), intent(inout) :: self\n    self%pc = 1\n  end subroutine ze_impl\nend module ze_base\n",
    "ze_use.f90": "module ze_child\n  use ze_base\n  implicit none\n  type, extends(ze_p) :: ze_c\n    integer :: cc\n  end type ze_c\n  type(ze_c) :: ze_obj\n  type(ze_p) :: ze_direct\ncontains\n  subroutine ze_go()\n    ze_obj%pc = ze_obj%cc\n    ze_direct%pc = 2\n    call ze_direct%pb()\n    call ze_obj%pb()\n    associate (zz => ze_obj%pc)\n      ze_obj%cc = zz\n    end associate\n  end subroutine ze_go\nend module ze_child\n",
}
# a third level of type extension in a file of its own: what the leaf inherits from the root must follow the root's file
BUNDLE["zf_leaf.f90"] = ("module zf_leaf\n  use ze_child\n  implicit none\n  type, extends(ze_c) :: zf_l\n    integer :: lc\n  end type zf_l\n  type(zf_l) :: zf_obj\ncontains\n"
                         "  subroutine zf_go()\n    zf_obj%pc = zf_obj%cc + zf_obj%lc\n    call zf_obj%pb()\n    zf_obj%\n  end subroutine zf_go\nend module zf_leaf\n")
# two preprocessed sources reach one header with different macro tables: what the header contributes depends on its includer
BUNDLE["zq_cfg.h"] = "#ifndef ZQ_PREC\n#define ZQ_PREC 4\n#endif\n#ifdef ZQ_FAST\n#define ZQ_MODE 2\n#else\n#define ZQ_MODE 1\n#endif\n"
BUNDLE["zq_a.F90"] = ("#define ZQ_PREC 8\n#define ZQ_FAST\n#include \"zq_cfg.h\"\nmodule zq_a\n  implicit none\n  real(ZQ_PREC) :: zq_xa\n  integer :: zq_ma(ZQ_MODE)\n"
                      "#if ZQ_MODE == 2\n  integer :: zq_a_fast\n#else\n  integer :: zq_a_slow\n#endif\nend module zq_a\n")
BUNDLE["zq_b.F90"] = ("#include \"zq_cfg.h\"\nmodule zq_b\n  implicit none\n  real(ZQ_PREC) :: zq_xb\n  integer :: zq_mb(ZQ_MODE)\n"
                      "#if ZQ_MODE == 2\n  integer :: zq_b_fast\n#else\n  integer :: zq_b_slow\n#endif\nend module zq_b\n")
BUNDLE["za_first.f90"] = ("module za_first\n  use ze_child\n  implicit none\ncontains\n  subroutine za_go()\n    associate (qq => ze_obj%pc)\n"
                          "      ze_obj%cc = qq\n    end associate\n    call ze_obj%pb()\n  end subroutine za_go\nend module za_first\n")
# two directories: a source in one of them includes a header that lives in the other one only, which is not on any
# search path (the header is found in the includer's own directory or in include_dirs; the directory of some other
# file that happened to be parsed earlier is neither)
BUNDLE["zd1/zd_a.F90"] = ("#include \"zd_x.h\"\nmodule zd_a\n  implicit none\n#ifdef ZD_N\n  integer :: zd_with(ZD_N)\n#else\n  integer :: zd_without\n#endif\n"
                          "contains\n  subroutine zd_sa()\n    zd_\n  end subroutine zd_sa\nend module zd_a\n")
BUNDLE["zd2/zd_x.h"] = "#define ZD_N 3\n"
BUNDLE["zd2/zd_b.F90"] = "#include \"zd_x.h\"\nmodule zd_b\n  implicit none\n  integer :: zd_w(ZD_N)\nend module zd_b\n"
BUNDLE_VARIANTS = {
    "zd1/zd_a.F90": [BUNDLE["zd1/zd_a.F90"].replace("implicit none\n", "implicit none\n  integer :: zd_more\n")],
    "zd2/zd_b.F90": [BUNDLE["zd2/zd_b.F90"].replace("zd_w", "zd_ww")],
    "zd2/zd_x.h": ["#define ZD_N 4\n"],
    "zi_inc.f90": ["      integer :: inc_renamed\n      real :: inc_other\n", "      real :: inc_other\n", "      integer :: inc_var, inc_more\n      real :: inc_other\n",
                   "! nothing is declared here any more\n"],
    "zi_main.f90": ["subroutine zi_user()\n  implicit none\n  integer :: own\n  own = 1\nend subroutine zi_user\n"],
    "zs_par.f90": [BUNDLE["zs_par.f90"].replace("zs_dbl", "zs_dbx"), BUNDLE["zs_par.f90"].replace("zs_work", "zs_other"), BUNDLE["zs_par.f90"].replace("integer :: zc", "integer :: zc\n    integer :: zd"),
                   BUNDLE["zs_par.f90"].replace("zs_t", "zs_u")],
    "zs_sub.f90": [BUNDLE["zs_sub.f90"].replace("(zs_par)", "(zs_gone)"), BUNDLE["zs_sub.f90"].replace("loc%zc = a", "loc%zc = a + 1")],
    "zp_pre.F90": [BUNDLE["zp_pre.F90"].replace("#define ZP_ON 1\n", ""), BUNDLE["zp_pre.F90"].replace("zp_yes", "zp_maybe")],
    "ze_ext.f90": [BUNDLE["ze_ext.f90"].replace("integer :: pc", "integer :: pc\n    integer :: pd"), BUNDLE["ze_ext.f90"].replace("pb => ze_impl", "pq => ze_impl"),
                   BUNDLE["ze_ext.f90"].replace("ze_p", "ze_q"), BUNDLE["ze_ext.f90"].replace("integer :: pc", "real :: pc")],
    "ze_use.f90": [BUNDLE["ze_use.f90"].replace("extends(ze_p)", "extends(ze_missing)"), BUNDLE["ze_use.f90"].replace("zz => ze_obj%pc", "zz => ze_obj%cc")],
    "zq_cfg.h": [BUNDLE["zq_cfg.h"].replace("ZQ_PREC 4", "ZQ_PREC 16"), BUNDLE["zq_cfg.h"].replace("ZQ_MODE 1", "ZQ_MODE 3")],
    "zq_a.F90": [BUNDLE["zq_a.F90"].replace("#define ZQ_FAST\n", ""), BUNDLE["zq_a.F90"].replace("ZQ_PREC 8", "ZQ_PREC 2")],
    "zq_b.F90": [BUNDLE["zq_b.F90"].replace("#include", "#define ZQ_FAST\n#include")],
    "zf_leaf.f90": [BUNDLE["zf_leaf.f90"].replace("integer :: lc", "integer :: lc\n    integer :: ld")],
    "za_first.f90": [BUNDLE["za_first.f90"].replace("qq => ze_obj%pc", "qq => ze_obj%cc"), BUNDLE["za_first.f90"].replace("use ze_child", "use ze_base")],
}


# ------------------------------------------------------------------ execution
def ranged_change(old, new):
    """One LSP ranged change turning old into new (common prefix/suffix trimmed)."""
    a = 0
    while a < len(old) and a < len(new) and old[a] == new[a]:
        a += 1
    b = 0
    while b < len(old) - a and b < len(new) - a and old[len(old) - 1 - b] == new[len(new) - 1 - b]:
        b += 1

    def pos(text, off):
        pre = text[:off]
        ln = pre.count("\n")
        ch = len(pre) - (pre.rfind("\n") + 1)
        return {"line": ln, "character": ch}

    return {"range": {"start": pos(old, a), "end": pos(old, len(old) - b)}, "text": new[a: len(new) - b]}


def execute(case, scratch):
    root = os.path.join(scratch, "c10_ws")
    shutil.rmtree(root, ignore_errors=True)
    os.makedirs(root)
    disk = dict(case["files"])
    for n, t in disk.items():
        os.makedirs(os.path.dirname(os.path.join(root, n)), exist_ok=True)
        with open(os.path.join(root, n), "w") as fh:
            fh.write(t)
    srv = Server(root=root, argv=C10_ARGV)
    buf = {}  # open documents: name -> client text
    info = {"changed_dep": False, "deleted": False, "created": False, "effective_ops": 0, "queried": False, "headers_touched": set()}
    P = lambda n: os.path.join(root, n)

    def version(n, v):
        if n in case["variants"]:
            vs = [case["files"][n]] + case["variants"][n]
        else:
            vs = [case["extra"][n], case["extra"][n].replace("xv", "yv"), case["extra"][n] + "! more\n"]
        return vs[v % len(vs)]

    try:
        for kind, n, v, mode in case["ops"]:
            if kind == "open":
                if n in disk and n not in buf:
                    srv.did_open(P(n))
                    buf[n] = disk[n]
                    info["effective_ops"] += 1
            elif kind == "change":
                if n in buf:
                    new = version(n, v)
                    if new != buf[n]:
                        ch = [{"text": new}] if mode == "full" else [ranged_change(buf[n], new)]
                        srv.did_change(P(n), ch)
                        buf[n] = new
                        info["effective_ops"] += 1
                        if n.endswith(".h"):
                            info["headers_touched"].add(n)
                        if info["queried"] and n in case["variants"]:
                            info["changed_dep"] = True
            elif kind == "burst":
                # many changes between two saves (key strokes): the text alternates between two versions
                if n in disk and n not in buf:
                    srv.did_open(P(n))
                    buf[n] = disk[n]
                if n in buf:
                    a, b = version(n, v), version(n, v + 1)
                    if (a if (mode - 1) % 2 else b) == buf[n]:
                        a, b = b, a  # end on a text that differs from the one saved before the burst
                    if a != b:
                        # save first, so that the burst is all that happens between two saves
                        with open(P(n), "w") as fh:
                            fh.write(buf[n])
                        disk[n] = buf[n]
                        srv.did_save(P(n))
                        for k in range(mode):
                            srv.did_change(P(n), [{"text": a if k % 2 else b}])
                        buf[n] = a if (mode - 1) % 2 else b
                        with open(P(n), "w") as fh:
                            fh.write(buf[n])
                        disk[n] = buf[n]
                        srv.did_save(P(n))
                        info["effective_ops"] += 1
                        info["burst"] = max(info.get("burst", 0), mode)
                        if info["queried"] and n in case["variants"]:
                            info["changed_dep"] = True
            elif kind == "save":
                if n in buf:
                    with open(P(n), "w") as fh:
                        fh.write(buf[n])
                    disk[n] = buf[n]
                    srv.did_save(P(n))
                    info["effective_ops"] += 1
            elif kind == "close":
                if n in buf:
                    srv.did_close(P(n))
                    del buf[n]
                    info["effective_ops"] += 1
            elif kind == "delete":
                if n in disk and n not in buf:
                    srv.did_open(P(n))
                    buf[n] = disk[n]
                if n in buf and n in disk:
                    os.unlink(P(n))
                    del disk[n]
                    srv.did_close(P(n))
                    del buf[n]
                    info["deleted"] = True
                    if n.endswith(".h"):
                        info["headers_touched"].add(n)
                    info["effective_ops"] += 1
            elif kind == "create":
                if n not in disk:
                    t = version(n, v)
                    with open(P(n), "w") as fh:
                        fh.write(t)
                    disk[n] = t
                    srv.did_open(P(n))
                    buf[n] = t
                    info["created"] = True
                    if n.endswith(".h"):
                        info["headers_touched"].add(n)
                    info["effective_ops"] += 1
            elif kind == "disk":
                if n in disk:
                    t = version(n, v)
                    with open(P(n), "w") as fh:
                        fh.write(t)
                    disk[n] = t
                    if n in buf:
                        buf[n] = t
                    srv.did_save(P(n))
                    info["effective_ops"] += 1
                    if n.endswith(".h"):
                        info["headers_touched"].add(n)
            elif kind == "query":
                # populate caches: ask about everything currently on disk
                battery.run(srv, root, disk, battery.positions(disk, per_file=12), heavy_every=3)
                info["queried"] = True
        # teardown: save every open document
        for n in sorted(buf):
            with open(P(n), "w") as fh:
                fh.write(buf[n])
            disk[n] = buf[n]
            srv.did_save(P(n))
        pos = battery.positions(disk, per_file=30)
        b_long = battery.run(srv, root, disk, pos)
        fresh = Server(root=root, argv=C10_ARGV)
        b_fresh = battery.run(fresh, root, disk, pos)
    except Exception as e:
        shutil.rmtree(root, ignore_errors=True)
        import traceback

        if not any("/fortls/" in fr.filename.replace("\\", "/") for fr in traceback.extract_tb(e.__traceback__)):
            from harness.runner import HarnessError

            raise HarnessError(f"{type(e).__name__}: {e}\n{traceback.format_exc()}")
        return [Disc(exc_signature(e, "C10-EXC"), f"{type(e).__name__}: {e}")], info
    discs = []
    seen = set()
    # files that #include a header the history modified, deleted or re-created
    includers = {n for n, t in list(disk.items()) + list(case["files"].items())
                 if any(re.search(r'^\s*#\s*include\s*"%s"' % re.escape(os.path.basename(h)), t, re.M) for h in info["headers_touched"])}
    parent_now = disk.get("zs_par.f90", "")
    for sec, key, a, b in battery.diff(b_long, b_fresh):
        label = "history-dependent:" + sec
        if "function zs_dbl" not in parent_now and re.search(r"zs_dbl|\bz[xy]\b", str(key) + json.dumps([a, b], default=str)):
            # the MODULE PROCEDURE implementation in the submodule was replaced by a copy of the interface it was first
            # linked with; when the parent's interface disappears (or changes kind) the copy stays
            label = "history-dependent:submodule-module-procedure-keeps-the-interface-it-was-first-linked-with"
            if label not in seen:
                seen.add(label)
                discs.append(Disc(label, f"{sec} {key}: long-lived server {json.dumps(a, default=str)[:200]} vs fresh server {json.dumps(b, default=str)[:200]}",
                                  {"section": sec, "key": key}))
            continue
        if includers and any(n in str(key) or n in json.dumps([a, b], default=str) for n in includers):
            # fortls does not track which files #include a header: after the header changes, its includers keep the macro
            # table of their last parse until they are parsed again themselves
            label = "history-dependent:includer-of-a-modified-preprocessor-header-keeps-its-old-macros"
            if label not in seen:
                seen.add(label)
                discs.append(Disc(label, f"{sec} {key}: long-lived server {json.dumps(a, default=str)[:200]} vs fresh server {json.dumps(b, default=str)[:200]}",
                                  {"section": sec, "key": key}))
            continue
        if sec == "indexed":
            label += ":" + ("deleted-file-still-indexed" if info["deleted"] else "file-set")
        elif sec in ("definition", "hover", "references", "completion"):
            aa = "none" if a in (None, []) else ("error" if isinstance(a, tuple) and a and a[0] == "error" else "answer")
            bb = "none" if b in (None, []) else ("error" if isinstance(b, tuple) and b and b[0] == "error" else "answer")
            label += f":long-lived={aa}:fresh={bb}"
        if label in seen:
            continue
        seen.add(label)
        discs.append(Disc(label, f"{sec} {key}: long-lived server {json.dumps(a, default=str)[:220]} vs fresh server {json.dumps(b, default=str)[:220]}",
                          {"section": sec, "key": key}))
    shutil.rmtree(root, ignore_errors=True)
    return discs, info


def run(ctx):
    def oracle(case):
        discs, info = execute(case, ctx.scratch)
        nt = info["changed_dep"] or info["deleted"] or info["created"]
        ctx.case(json.dumps(case["ops"]) + str(hash(tuple(sorted(case["files"].items())))), bool(nt),
                 sample={"ops": case["ops"], "files": sorted(case["files"]), "n_variants": {k: len(v) for k, v in case["variants"].items()}},
                 classes=[f"ops:{min(info['effective_ops'], 12) // 3 * 3}+"] + (["changed-dependency-after-query"] if info["changed_dep"] else [])
                 + (["deleted"] if info["deleted"] else []) + (["created"] if info["created"] else [])
                 + ([f"burst:{info['burst']}-changes-between-two-saves"] if info.get("burst") else []))
        return discs

    ctx.hyp(case_st(), oracle, max_examples=ctx.n(70, 800), collect=bool(os.environ.get("VERIF_COLLECT")))


def replay(ctx, case):
    return execute(case, ctx.scratch)[0]
