"""C14 — fixed-form sources are recognised and understood like their free-form twin.

Domain : every fmodel program rendered in fixed source form (statement field from column 7,
         continuation mark in column 6 from a drawn character, comment lines flagged C c * ! d D,
         numeric labels, DO <label> ... <label> CONTINUE including shared terminal labels, lines
         <= 72 columns) and in free form (all layouts of C13: indentation 0..8, with/without `::`
         continuation, plus small flush-left programs without declarations).
Oracle : (1) the `fixed` flag of the indexed file: True for every fixed rendering, False for every
         free rendering; (2) the normalised dump (outline, per-occurrence definition target,
         diagnostics — compared by entity/statement as in C13) of the .f rendering equals that of
         the plain free rendering.
"""
from __future__ import annotations

import dataclasses
import os

from hypothesis import strategies as st

from checks import c13
from harness import fmodel, fws
from harness.findings import Disc
from harness.lsp import Server

PROPERTY = "C14"
LEVEL = "exploration"
SHARDS = {"quick": 8, "thorough": 16}
RULE = (
    "Hypothesis: fmodel program x fixed-form layout (continuation character, comment flag set, indentation inside the "
    "statement field, case, blank/comment lines, labelled DO with shared terminal labels) compared with its plain free "
    "rendering; plus form detection on every free layout (indent 0,1,2,4,8; split/joined; case) and on flush-left free "
    "programs without declarations.  Non-trivial = the fixed rendering contains a continuation line, a labelled DO and a "
    "comment line flagged by a letter; distinct by (program, layout)."
)
ASSUMPTIONS = [
    "fixed-form text validated on a sample with gfortran -std=legacy -fd-lines-as-comments",
    "d/D in column 1 is treated as a comment flag, as the property lists it",
]

FLUSH_LEFT = [
    ["module m", "contains", "subroutine s()", "call t()", "do i=1,2", "end do", "end subroutine", "end module"],
    ["program p", "implicit none", "call s(1)", "contains", "subroutine s(k)", "integer k", "print *, k", "end subroutine", "end program"],
    ["subroutine a", "call b", "end subroutine", "subroutine b", "continue", "end subroutine"],
    ["program q", "use iso_fortran_env", "print *, 1", "end program q"],
]


def fixed_flag(srv, path):
    f = srv.file(path)
    return None if f is None else bool(f.fixed)


def check(ctx, prog, layout, cc, cf, scratch):
    discs = []
    # (1a) detection on a free rendering
    free_layout = dataclasses.replace(layout, fixed=False)
    rf = fmodel.render(prog, free_layout)
    root = os.path.join(scratch, "c14_free")
    srv, _ = fws.start(rf, root, open_files=False)
    for fn in rf.files:
        flag = fixed_flag(srv, os.path.join(root, fn))
        if flag is not False:
            lines = rf.lines[fn]
            beyond5 = all((len(l) - len(l.lstrip(" "))) >= 5 or not l.strip() or l.lstrip().startswith("!") or (len(l) - len(l.lstrip(" "))) == 0
                          for l in lines)
            label = "free-form-classified-as-fixed"
            if free_layout.indent >= 5:
                label += ":no-line-starts-in-columns-2-5(indent>=5)"
            elif free_layout.indent == 0 and free_layout.kwcase != "lower":
                label += ":flush-left"
            else:
                label += f":indent-{free_layout.indent}"
            discs.append(Disc(label, f"free rendering {fn} (indent {free_layout.indent}, {c13.features(free_layout)}) has fixed={flag}: first lines "
                                     f"{lines[:4]!r}", {"kind": "free-detect"}))
            break
    # (1b)+(2) fixed rendering
    fl = dataclasses.replace(layout, fixed=True, cont_char=cc, comment_flag=cf, eol=layout.eol if layout.eol != "\r" else "\n")
    rx = fmodel.render(prog, fl)
    fws.gfortran_sample(ctx, rx, every=8)
    base = fmodel.render(prog, fmodel.PLAIN)
    has_cont = any(l.startswith("     ") and len(l) > 5 and l[5] not in " 0" for ls in rx.lines.values() for l in ls)
    has_ldo = any(l[:5].strip().isdigit() for ls in rx.lines.values() for l in ls if l[:5].strip())
    has_lett = any(l[:1] in "CcdD" and l[:6].strip() and not l.startswith("      ") for ls in rx.lines.values() for l in ls)
    nt = has_cont and has_ldo and has_lett
    ctx.case((hash(tuple(sorted(base.files.items()))), fl.key()), nt,
             sample={"fixed_text": list(rx.files.values())[0][:700], "cont_char": cc, "comment_flag": cf},
             classes=[f"cont:{cc}", f"flag:{cf}"] + (["continuation"] if has_cont else []) + (["labelled-do"] if has_ldo else [])
             + (["letter-comment"] if has_lett else []) + (["nontrivial"] if nt else []))
    d0 = c13.dump(ctx, prog, base, os.path.join(scratch, "c14_a"))
    rootx = os.path.join(scratch, "c14_b")
    d1 = c13.dump(ctx, prog, rx, rootx)
    srvx = Server(root=rootx, argv=fws.ARGV)
    for fn in rx.files:
        flag = fixed_flag(srvx, os.path.join(rootx, fn))
        if flag is not True:
            discs.append(Disc("fixed-form-not-recognised", f"fixed rendering {fn} has fixed={flag}: first lines {rx.lines[fn][:4]!r}", {"kind": "fixed-detect"}))
            return discs, rx, base
    # compare dumps by entity (file names differ: .f vs .f90)
    defs0, defs1 = d0[0], d1[0]
    seen = set()
    for k, (key1, o1) in defs1.items():
        if k not in defs0:
            continue
        key0, _ = defs0[k]
        if key0 != key1:
            what = "fixed:definition-differs"
            if key1 is not None and key1[0] == "stmt" and key0 is not None and key0[0] == "occ" and key0[1] in key1[1]:
                what = "fixed:definition-column-off-in-target"
            label = c13.local_label(what, dataclasses.replace(fl, lead_amp=False), rx, o1 if what.endswith("differs") else None, key0)
            label = label.replace("continued-with-&", "continued-in-column-6")
            if label not in seen:
                seen.add(label)
                discs.append(Disc(label, f"definition of {o1.text!r} ({o1.role}) at {o1.file}:{o1.line}:{o1.col} ({rx.lines[o1.file][o1.line][:72]!r}) -> "
                                         f"{key1}; free form -> {key0}", {"kind": "equiv", "file": o1.file, "line": o1.line, "col": o1.col}))
    ren = lambda d: {os.path.splitext(k)[0]: v for k, v in d.items()}
    o0, o1_ = ren(d0[1]), ren(d1[1])
    for fn in o0:
        if o0[fn] != o1_.get(fn):
            a, b = o0[fn], o1_.get(fn, [])
            diff = [("only-free",) + x for x in a if x not in b][:2] + [("only-fixed",) + x for x in b if x not in a][:2]
            kind = "labelled-do" if has_ldo else "plain"
            discs.append(Disc(f"fixed:outline-differs:{kind}", f"{fn}: outline differs between fixed and free form: {diff}", {"kind": "equiv"}))
    g0, g1 = ren(d0[2]), ren(d1[2])
    for fn in set(g0) | set(g1):
        a, b = list(g0.get(fn, [])), list(g1.get(fn, []))
        rest = list(b)
        only_free = []
        for x in a:
            m = [y for y in rest if y[0] == x[0] and y[1] == x[1] and set(x[2]) & set(y[2])]
            if m:
                rest.remove(m[0])
            else:
                only_free.append(x)
        if rest or only_free:
            import re

            msg = (rest or only_free)[0][1]
            discs.append(Disc("fixed:diagnostics-differ:" + re.sub(r'"[^"]*"', '"X"', msg)[:50],
                              f"{fn}: diagnostics differ between fixed and free form: only-fixed {rest[:2]} only-free {only_free[:2]}", {"kind": "equiv"}))
    return discs, rx, base


def flush_left_checks(ctx):
    for i, lines in enumerate(FLUSH_LEFT):
        if i % ctx.nshards != ctx.shard % len(FLUSH_LEFT) or ctx.shard >= len(FLUSH_LEFT):
            continue
        root = os.path.join(ctx.scratch, "c14_fl")
        import shutil

        shutil.rmtree(root, ignore_errors=True)
        os.makedirs(root)
        p = os.path.join(root, "x.f90")
        with open(p, "w") as fh:
            fh.write("\n".join(lines) + "\n")
        srv = Server(root=root, argv=fws.ARGV)
        flag = fixed_flag(srv, p)
        ctx.case(("flush-left", i), True, sample={"lines": lines}, classes=["flush-left-no-declarations"])
        if flag is not False:
            ctx.check([Disc("free-form-classified-as-fixed:flush-left-without-declaration-in-columns-1-5-or-&",
                            f"free-form program {lines!r} has fixed={flag}")], {"flush_left": lines})


# ------------------------------------------------------------------ flush-left free form (F77 habits in a .f90 file)
FL_DECLS = ["integer n", "integer :: i, j", "real x", "real(8) :: y", "double precision d", "double precision :: dd(3)", "character(len=8) c",
            "character*8 name", "complex z", "complex(8) :: zz", "logical flag", "double complex w", "dimension v(3)", "type(t_fl) :: obj",
            "class(*), pointer :: cp", "external fext", "parameter (k = 3)"]
FL_EXEC = ["x = 1.0", "call fext(x)", "do i = 1, 3", "end do", "if (x > 0.0) then", "end if", "print *, x", "d = 2.0d0", "c = 'ab'", "continue",
           "! a comment line", "c = c", "data n /3/", "call setup", "dd(1) = d"]


@st.composite
def flush_left_st(draw):
    unit = draw(st.sampled_from(["subroutine area(n, x)", "program area", "function area(n, x)", "module area"]))
    decls = draw(st.lists(st.sampled_from(FL_DECLS), min_size=0, max_size=4, unique=True))
    execs = [] if unit.startswith("module") else draw(st.lists(st.sampled_from(FL_EXEC), min_size=1, max_size=6))
    case = draw(st.sampled_from(["lower", "upper", "title"]))
    lines = [unit] + (["implicit none"] if draw(st.booleans()) else []) + decls + execs + ["end " + unit.split("(")[0]]
    conv = {"lower": str.lower, "upper": str.upper, "title": str.capitalize}[case]
    lines = [l if l.startswith("!") else conv(l) for l in lines]
    if draw(st.booleans()):
        lines.insert(draw(st.integers(0, len(lines))), "! comment")
    typed = [d for d in decls if d.split("(")[0].split()[0].split("*")[0] in ("integer", "real", "double", "character", "complex", "logical", "type", "class")]
    # only type declaration statements count as "declarations" for form detection (DIMENSION / EXTERNAL / PARAMETER do not)
    return {"flush_left": lines, "ndecl": len(typed), "decl_first_letters": sorted({d[0] for d in typed})}


def flush_left_oracle(ctx):
    def oracle(case):
        root = os.path.join(ctx.scratch, "c14_fl2")
        import shutil

        shutil.rmtree(root, ignore_errors=True)
        os.makedirs(root)
        p = os.path.join(root, "x.f90")
        with open(p, "w") as fh:
            fh.write("\n".join(case["flush_left"]) + "\n")
        srv = Server(root=root, argv=fws.ARGV)
        flag = fixed_flag(srv, p)
        only_cd = bool(case["ndecl"]) and set(case["decl_first_letters"]) <= {"c", "d"}
        ctx.case(("flush-left-gen", tuple(case["flush_left"])), case["ndecl"] > 0, sample={"lines": case["flush_left"]} if only_cd else None,
                 classes=["flush-left-generated"] + (["declarations-all-start-with-c-or-d"] if only_cd else []) + ([] if case["ndecl"] else ["no-declarations"]))
        if flag is not False:
            if case["ndecl"] == 0:
                return [Disc("free-form-classified-as-fixed:flush-left-without-declaration-in-columns-1-5-or-&", f"free-form program {case['flush_left']!r} has fixed={flag}")]
            return [Disc("free-form-classified-as-fixed:flush-left-with-declarations", f"free-form program {case['flush_left']!r} (declarations in column 1) has fixed={flag}")]
        return []

    return oracle


case_st = st.tuples(fmodel.program_st(), fmodel.layout_st, st.sampled_from(["&", "1", "+", "$", "x", "*"]),
                    st.sampled_from(["C", "c", "*", "!", "d", "mixed"]))


def run(ctx):
    flush_left_checks(ctx)
    ctx.hyp(flush_left_st(), flush_left_oracle(ctx), max_examples=ctx.n(60, 2000), label="flush-left", collect=bool(os.environ.get("VERIF_COLLECT")),
            case_of=lambda c: {"flush_left": c["flush_left"]})

    def oracle(v):
        prog, layout, cc, cf = v
        return check(ctx, prog, layout, cc, cf, ctx.scratch)[0]

    def case_of(v):
        prog, layout, cc, cf = v
        fl = dataclasses.replace(layout, fixed=True, cont_char=cc, comment_flag=cf, eol=layout.eol if layout.eol != "\r" else "\n")
        return {"fixed": fmodel.render(prog, fl).files, "free": fmodel.render(prog, dataclasses.replace(layout, fixed=False)).files,
                "plain": fmodel.render(prog, fmodel.PLAIN).files}

    ctx.hyp(case_st, oracle, max_examples=ctx.n(40, 1500), case_of=case_of, collect=bool(os.environ.get("VERIF_COLLECT")))
    for sig, v in ctx.violations.items():
        if isinstance(v.get("detail"), dict):
            v["case"].update(v["detail"])
        v["case"]["signature"] = sig


def replay(ctx, case):
    import shutil

    out = []
    if "flush_left" in case:
        root = os.path.join(ctx.scratch, "c14_r")
        shutil.rmtree(root, ignore_errors=True)
        os.makedirs(root)
        p = os.path.join(root, "x.f90")
        with open(p, "w") as fh:
            fh.write("\n".join(case["flush_left"]) + "\n")
        if fixed_flag(Server(root=root, argv=fws.ARGV), p) is not False:
            out.append(Disc("free-form-classified-as-fixed:flush-left-without-declaration-in-columns-1-5-or-&", "still classified as fixed"))
        return out
    flags = {}
    syms = {}
    for tag in ("fixed", "free", "plain"):
        root = os.path.join(ctx.scratch, "c14_r_" + tag)
        shutil.rmtree(root, ignore_errors=True)
        os.makedirs(root)
        for n, t in case[tag].items():
            with open(os.path.join(root, n), "w", newline="") as fh:
                fh.write(t)
        srv = Server(root=root, argv=fws.ARGV)
        flags[tag] = [fixed_flag(srv, os.path.join(root, n)) for n in case[tag]]
        from harness.lsp import uri_of

        syms[tag] = sorted((g["name"].lower(), g["kind"]) for n in case[tag]
                           for g in (srv.request("textDocument/documentSymbol", {"textDocument": {"uri": uri_of(os.path.join(root, n))}})[0].get("result") or []))
    sig = case.get("signature", "c14:replay")
    if case.get("kind") == "free-detect" and any(f is not False for f in flags["free"]):
        out.append(Disc(sig, f"free rendering classified fixed: {flags['free']}"))
    if case.get("kind") == "fixed-detect" and any(f is not True for f in flags["fixed"]):
        out.append(Disc(sig, f"fixed rendering not recognised: {flags['fixed']}"))
    if case.get("kind") == "equiv" and syms["fixed"] != syms["plain"]:
        out.append(Disc(sig, "outline (names, kinds) of the fixed rendering differs from the free rendering"))
    if "line" in case:
        # the saved position of the fixed rendering: the definition must exist and land on the same word
        import re

        from harness.lsp import pos_params

        root = os.path.join(ctx.scratch, "c14_r_fixed")
        srv = Server(root=root, argv=fws.ARGV)
        got = srv.request("textDocument/definition", pos_params(os.path.join(root, case["file"]), case["line"], case["col"] + 1))[0].get("result")
        lines = re.split(r"\r\n|\n|\r", case["fixed"][case["file"]])
        word = re.match(r"[\w$]+", lines[case["line"]][case["col"]:])
        if not isinstance(got, dict):
            out.append(Disc(sig, f"definition at {case['file']}:{case['line']}:{case['col']} ({lines[case['line']].strip()!r}) -> {got}"))
        else:
            tl = re.split(r"\r\n|\n|\r", case["fixed"][os.path.basename(got["uri"])])[got["range"]["start"]["line"]]
            c = got["range"]["start"]["character"]
            if word and tl[c : c + len(word.group(0))].lower() != word.group(0).lower():
                out.append(Disc(sig, f"target column {c} of {tl!r} is not on {word.group(0)!r}"))
            if "target" in case and [os.path.basename(got["uri"]), got["range"]["start"]["line"]] != list(case["target"]):
                out.append(Disc(sig, f"definition lands on line {got['range']['start']['line']}, expected {case['target']}"))
    return out
