"""C15 — the start-up index does not depend on workers, enumeration order or hash seed.

Domain : fmodel workspaces (unique unit names) spread over nested directories, plus a hand-written
         bundle with INCLUDE / submodule / cpp / EXTENDS links across files.
Schedules / configurations (the harness owns them): number of worker processes (real
         multiprocessing.Pool, 1..16), the interpreter's hash seed (a fresh process per seed), the
         order in which os.listdir / os.walk enumerate entries (wrapped to return drawn
         permutations; exhaustive over all permutations for directories with <= 3 entries in the
         thorough tier), and "start on an empty directory and open the files one at a time in a
         drawn order".
Oracle : differential: the normalised battery (harness/battery.py) is identical across all
         configurations.
"""
from __future__ import annotations

import itertools
import json
import os
import shutil

from hypothesis import strategies as st

from harness import battery, fmodel
from harness.findings import Disc
from harness.worker import Worker

PROPERTY = "C15"
LEVEL = "exploration"
SHARDS = {"quick": 8, "thorough": 16}
RULE = (
    "Hypothesis: fmodel workspace (2-4 files in nested directories) + bundle, x configurations drawn from nthreads in "
    "{1,2,3,4,8,16} x PYTHONHASHSEED in {0,1,2,3,7} x listing-order permutation x {initialize on the tree, start empty and "
    "didOpen in a drawn order}; every configuration's battery is compared with the reference configuration (1 worker, "
    "hash seed 0, sorted listing).  Non-trivial = >=3 files with >=2 cross-file link kinds and >=2 configurations that differ "
    "in more than one dimension; distinct by (workspace, configuration)."
)
ASSUMPTIONS = [
    "the interleaving of Pool workers is sampled, not controlled; results are merged in file-list order by construction, which the check confirms from outside",
    "top-level unit names are unique in the workspace",
]

from checks.c10 import BUNDLE  # the same hand-written cross-file bundle


# ------------------------------------------------------------------ runs in a worker with its own hash seed
def run_config(root, files, cfg):
    """cfg: {"nthreads": n, "perm": k, "mode": "init" | "open", "open_order": [...]} -> battery"""
    import random

    from harness.lsp import Server

    real_listdir, real_walk = os.listdir, os.walk
    k = cfg.get("perm", 0)

    def permute(seq):
        seq = sorted(seq)
        if k == 0 or len(seq) < 2:
            return seq
        if len(seq) <= 4:
            perms = list(itertools.permutations(seq))
            return list(perms[k % len(perms)])
        return random.Random(k).sample(seq, len(seq))

    def listdir(p="."):
        return permute(real_listdir(p))

    def walk(top, *a, **kw):
        for r, ds, fs in real_walk(top, *a, **kw):
            ds[:] = permute(ds)
            yield r, ds, permute(fs)

    os.listdir, os.walk = listdir, walk
    try:
        argv = ["--disable_autoupdate", "--incremental_sync", "-n", str(cfg["nthreads"])]
        if cfg.get("include_dirs"):
            argv += ["--include_dirs"] + [os.path.join(root, d) for d in cfg["include_dirs"]]
        if cfg["mode"] == "init":
            srv = Server(root=root, argv=argv, fast_pool=False)
            errs = [o for o in srv.init_notes if o.get("method") == "window/showMessage" and o["params"].get("type") == 1]
        else:
            empty = root + "_empty"
            os.makedirs(empty, exist_ok=True)
            srv = Server(root=empty, argv=argv, fast_pool=False)
            errs = []
            for rel in cfg["open_order"]:
                srv.did_open(os.path.join(root, rel))
    finally:
        os.listdir, os.walk = real_listdir, real_walk
    pos = battery.positions(files, per_file=25)
    b = battery.run(srv, root, files, pos)
    b["init_errors"] = [e["params"]["message"].replace(root, "$ROOT") for e in errs]
    return json.loads(json.dumps(b, default=str))


# ------------------------------------------------------------------ parent side
@st.composite
def case_st(draw):
    prog = draw(fmodel.program_st(nfiles=(2, 4)))
    r = fmodel.render(prog, fmodel.PLAIN)
    dirs = ["", "sub", "sub/deep", "lib"]
    files = {}
    for i, n in enumerate(sorted(r.files)):
        d = draw(st.sampled_from(dirs))
        files[os.path.join(d, n)] = r.files[n]
    bd = draw(st.sampled_from(["", "bundle"]))
    for n, t in BUNDLE.items():
        files[os.path.join(bd, n)] = t
    # one header name in two include directories: which one is found must not depend on the run
    inc = None
    if draw(st.booleans()):
        files["zinc1/zh_defs.h"] = "#define ZH_VAL 1\n"
        files["zinc2/zh_defs.h"] = "#define ZH_VAL 2\n"
        files[os.path.join(bd, "zh_user.F90")] = ("#include \"zh_defs.h\"\nmodule zh_user\n  implicit none\n  integer :: zh_arr(ZH_VAL)\n#if ZH_VAL == 1\n  integer :: zh_one\n"
                                                  "#else\n  integer :: zh_two\n#endif\ncontains\n  subroutine zh_s()\n    zh_\n  end subroutine zh_s\nend module zh_user\n")
        inc = ["zinc1", "zinc2", "lib"]
    cfgs = []
    for _ in range(draw(st.integers(3, 5))):
        mode = draw(st.sampled_from(["init", "init", "init", "open"]))
        cfg = {"nthreads": draw(st.sampled_from([1, 2, 3, 4, 8, 16])), "perm": draw(st.integers(0, 23)), "mode": mode,
               "hashseed": draw(st.sampled_from([0, 1, 2, 3, 7]))}
        if inc:
            cfg["include_dirs"] = inc
        if mode == "open":
            order = sorted(files)
            cfg["open_order"] = list(draw(st.permutations(order)))
        cfgs.append(cfg)
    return {"files": files, "configs": cfgs}


class Runner:
    def __init__(self, ctx):
        self.ctx = ctx
        self.workers = {}

    def worker(self, seed):
        if seed not in self.workers:
            self.workers[seed] = Worker("checks.c15:run_config", env={"PYTHONHASHSEED": str(seed)})
        return self.workers[seed]

    def close(self):
        for w in self.workers.values():
            w.close()

    def battery_of(self, root, files, cfg):
        status, val, cpu = self.worker(cfg.get("hashseed", 0)).call((root, files, cfg), cpu_limit=300.0)
        if status != "ok":
            return {"_failed": status}
        if isinstance(val, dict) and "harness_error" in val:
            from harness.runner import HarnessError

            raise HarnessError(val["harness_error"])
        return val

    def execute(self, case):
        root = os.path.join(self.ctx.scratch, "c15_ws")
        shutil.rmtree(root, ignore_errors=True)
        shutil.rmtree(root + "_empty", ignore_errors=True)
        for rel, t in case["files"].items():
            p = os.path.join(root, rel)
            os.makedirs(os.path.dirname(p), exist_ok=True)
            with open(p, "w") as fh:
                fh.write(t)
        ref_cfg = {"nthreads": 1, "perm": 0, "mode": "init", "hashseed": 0}
        if case["configs"] and case["configs"][0].get("include_dirs"):
            ref_cfg["include_dirs"] = case["configs"][0]["include_dirs"]
        ref = self.battery_of(root, case["files"], ref_cfg)
        discs = []
        for cfg in case["configs"]:
            b = self.battery_of(root, case["files"], cfg)
            if "_failed" in b or "_failed" in ref:
                discs.append(Disc("config-run-failed:" + str(b.get("_failed", ref.get("_failed"))), f"configuration {cfg} did not complete"))
                continue
            dims = [d for d in ("nthreads", "perm", "hashseed", "mode") if cfg.get(d) != ref_cfg.get(d)]
            for sec, key, a, bb in battery.diff(ref, b, limit=2):
                if cfg["mode"] == "open" and sec == "indexed":
                    continue
                what = "open-one-at-a-time" if cfg["mode"] == "open" else "+".join(d for d in dims if d != "mode")
                aa = "none" if a in (None, []) else "answer"
                bv = "none" if bb in (None, []) else "answer"
                discs.append(Disc(f"index-depends-on:{what}:{sec}" + (f":ref={aa}:cfg={bv}" if sec in ("definition", "hover", "references", "completion") else ""),
                                  f"{sec} {key}: reference configuration {json.dumps(a, default=str)[:200]} vs {cfg} {json.dumps(bb, default=str)[:200]}",
                                  {"config": cfg}))
                break
        shutil.rmtree(root, ignore_errors=True)
        shutil.rmtree(root + "_empty", ignore_errors=True)
        return discs

    def oracle(self, case):
        discs = self.execute(case)
        nfiles = len(case["files"])
        multi = sum(1 for c in case["configs"] if sum(1 for d, v in (("nthreads", 1), ("perm", 0), ("hashseed", 0), ("mode", "init")) if c.get(d) != v) >= 2)
        self.ctx.case(json.dumps([sorted(case["files"]), case["configs"]], default=str) + str(hash(tuple(sorted(case["files"].items())))),
                      nfiles >= 3 and multi >= 2,
                      sample={"files": sorted(case["files"]), "configs": [{k: v for k, v in c.items() if k != "open_order"} for c in case["configs"]]},
                      classes=[f"nthreads:{c['nthreads']}" for c in case["configs"]] + [f"mode:{c['mode']}" for c in case["configs"]]
                      + [f"hashseed:{c['hashseed']}" for c in case["configs"]])
        self.ctx.extra["configurations_run"] = self.ctx.extra.get("configurations_run", 0) + len(case["configs"]) + 1
        return discs


def run(ctx):
    r = Runner(ctx)
    try:
        if ctx.tier == "thorough":
            # exhaustive listing orders for the bundle alone (7 files in one directory would be 5040; use a 4-file sub-bundle)
            sub = {k: BUNDLE[k] for k in ("ze_ext.f90", "ze_use.f90", "zs_par.f90", "zs_sub.f90")}
            cfgs = [{"nthreads": 1 + (k % 3), "perm": k, "mode": "init", "hashseed": 0} for k in range(24)]
            for i in range(0, 24, 6):
                if (i // 6) % ctx.nshards == ctx.shard % 4 and ctx.shard < 4:
                    case = {"files": sub, "configs": cfgs[i:i + 6]}
                    ctx.check(r.oracle(case), case)
            ctx.notes["exhaustive"] = "all 24 listing orders of a 4-file cross-linked directory"
        ctx.hyp(case_st(), r.oracle, max_examples=ctx.n(8, 80), collect=bool(os.environ.get("VERIF_COLLECT")))
    finally:
        r.close()


def replay(ctx, case):
    r = Runner(ctx)
    try:
        return r.execute(case)
    finally:
        r.close()
