"""C07 — diagnostics: silent on valid programs, present on each documented defect.

Level  : fault_enumeration.  For every generated (gfortran-validated) program, every applicable
         (defect class, seeding position) pair is enumerated, not sampled.
Oracle : valid program => no diagnostic with severity 1.  Seeded program => a diagnostic whose
         message matches the class's pattern, with the class's severity, on the offending line
         (for "construct left open" the opening line; for "USE after IMPLICIT" the IMPLICIT line),
         and every other severity-1 diagnostic belongs to the class's listed consequences.
"""
from __future__ import annotations

import os
import re
import shutil

from hypothesis import strategies as st

from harness import fmodel, fws
from harness.findings import Disc
from harness.lsp import Server

PROPERTY = "C07"
LEVEL = "fault_enumeration"
SHARDS = {"quick": 8, "thorough": 16}
RULE = (
    "Hypothesis fmodel programs (plain layout, gfortran-validated on a sample, optionally with a valid abstract-type "
    "module appended) x all 16 defect classes x every applicable seeding position of the program (enumerated).  "
    "Non-trivial = (program, class, position) triples whose seeding position is nested at depth >= 2; distinct by triple."
)
ASSUMPTIONS = [
    "severities as implemented: 1, except masking = 2, unknown module = 3, line length = 2",
    "per-class consequence lists (other severity-1 messages a seeded defect legitimately triggers) are part of the oracle and listed in CONSEQ",
]

ARGV = ["--disable_autoupdate", "--incremental_sync", "-n", "1", "--max_line_length", "200"]

ABS_VALID = """module zz_abs
  implicit none
  type, abstract :: zz_a
  contains
    procedure(zz_i), deferred :: zz_d
  end type zz_a
  abstract interface
    subroutine zz_i(self)
      import zz_a
      class(zz_a), intent(inout) :: self
    end subroutine zz_i
  end interface
  type, extends(zz_a) :: zz_c
    integer :: zk
  contains
    procedure :: zz_d => zz_impl
  end type zz_c
contains
  subroutine zz_impl(self)
    class(zz_c), intent(inout) :: self
    self%zk = 1
  end subroutine zz_impl
end module zz_abs
"""

# class -> (severity, message regex)
CLASSES = {
    "declared-twice": (1, r'Variable "{name}" declared twice in scope'),
    "masks-parent": (2, r'Variable "{name}" masks variable in parent scope'),
    "construct-left-open": (1, r"Unexpected end of scope at line \d+"),
    "unknown-module": (3, r'Module "{name}" not found in project'),
    "type-not-accessible": (1, r'Object "{name}" not found in scope'),
    "dummy-undeclared": (1, r'No matching declaration found for argument "{name}"'),
    "intent-non-dummy": (1, r'Variable "{name}" with INTENT keyword not found in argument list'),
    "second-contains": (1, r"Multiple CONTAINS statements in scope"),
    "outside-scope": (1, r"(CONTAINS|IMPLICIT|Visibility) statement without enclosing scope"),
    "import-outside-interface": (1, r"IMPORT statement outside of interface"),
    "use-after-implicit": (1, r"USE statements after IMPLICIT statement"),
    "procedure-before-contains": (1, r"Subroutine/Function definition before CONTAINS statement"),
    "procedure-in-type-or-block": (1, r'Invalid parent for "SUBROUTINE" declaration'),
    "deferred-unimplemented": (1, r'Deferred procedure "zz_d" not implemented'),
    "line-too-long": (2, r'Line length exceeds "max_line_length" \(200\)'),
    "not-imported-in-interface": (1, r'Object "{name}" not imported in interface'),
}
# other severity-1 messages that a seeded defect of the class legitimately entails
CONSEQ = {
    "procedure-before-contains": [r"Subroutine/Function definition before CONTAINS statement"],
    "outside-scope": [r"(CONTAINS|IMPLICIT|Visibility) statement without enclosing scope"],
    "dummy-undeclared": [],
    "construct-left-open": [],
}


def scope_depth(stmt):
    return stmt.depth


def seed_positions(prog, r):
    """Enumerate (class, new files, expectation) for every applicable position.  One statement per line."""
    out = []
    for f in prog.files:
        name = f.name
        lines = r.lines[name]
        L = lambda s: r.stmt_lines[id(s)][1]
        stmts = f.stmts

        def variant(new_lines):
            files = dict(r.files)
            files[name] = "\n".join(new_lines) + "\n"
            return files

        def ins(at, text):
            return lines[:at] + ([text] if isinstance(text, str) else list(text)) + lines[at:]

        type_depth = 0
        for i, s in enumerate(stmts):
            ln = L(s)
            if s.kind == "open-type":
                type_depth += 1
            if s.kind == "close-type":
                type_depth -= 1
            refs = [t for t in s.toks if isinstance(t, fmodel.Ref)]
            # 1 declared twice
            if s.kind == "decl" and s.simple and type_depth == 0 and refs and refs[-1].role == "decl":
                e = refs[-1].ent
                out.append(("declared-twice", variant(ins(ln + 1, lines[ln])), name, [ln + 1], e.name, s.depth))
            # 3 construct left open
            if s.kind == "close-construct":
                opener = [x for x in stmts if x.opens == s.closes][0]
                nl = list(lines)
                nl[ln] = " " * (2 * s.depth) + "end"
                ok_lines = [L(opener), ln]
                # SELECT TYPE: the innermost open scope is the last type guard region, reporting there is right as well
                for x in stmts:
                    for _d, heads in getattr(x, "seltype", ()):
                        if heads and heads[0] is opener:
                            ok_lines += [L(h) for h in heads[1:]]
                out.append(("construct-left-open", variant(nl), name, sorted(set(ok_lines)), None, s.depth + 1))
            # 8 second contains
            if s.kind == "contains":
                out.append(("second-contains", variant(ins(ln + 1, lines[ln])), name, [ln + 1], None, s.depth))
            # 12 procedure before contains (delete the CONTAINS line of a unit / procedure)
            if s.kind == "contains":
                nxt = stmts[i + 1] if i + 1 < len(stmts) else None
                if nxt is not None and nxt.kind == "open-proc":
                    nl = list(lines)
                    del nl[ln]
                    out.append(("procedure-before-contains", variant(nl), name, [L(nxt) - 1], None, s.depth))
            # 13 procedure inside a block / a type
            if s.kind == "open-construct" and isinstance(s.toks[-1], str) and s.toks[-1].strip() == "block" or (
                    s.kind == "open-construct" and any(isinstance(t, str) and t.strip() == "block" for t in s.toks)):
                out.append(("procedure-in-type-or-block", variant(ins(ln + 1, ["subroutine zz_bad()", "end subroutine zz_bad"])), name, [ln + 1], None,
                            s.depth + 1))
            if s.kind == "close-type":
                out.append(("procedure-in-type-or-block", variant(ins(ln, ["subroutine zz_bad()", "end subroutine zz_bad"])), name, [ln], None, s.depth + 1))
            # 15 over-long line
            if s.kind == "exec" and s.simple and len(out) % 7 == 0:
                nl = list(lines)
                nl[ln] = nl[ln] + " " * 10 + "! " + "x" * 200
                out.append(("line-too-long", variant(nl), name, [ln], None, s.depth))
            # scopes: units and procedures
            if s.kind in ("open-unit", "open-proc"):
                ent = s.opens
                sc = ent.inner
                # first statement after the header that is not a USE statement
                j = i + 1
                while j < len(stmts) and stmts[j].kind == "use":
                    j += 1
                after_use = L(stmts[j])
                first_use_pos = ln + 1
                # 4 unknown module
                out.append(("unknown-module", variant(ins(first_use_pos, "use zz_nonexistent_mod")), name, [first_use_pos], "zz_nonexistent_mod", s.depth))
                # 10 import outside interface
                out.append(("import-outside-interface", variant(ins(after_use, "import")), name, [after_use], None, s.depth))
                # spec-part insertion point: after implicit none if it is the next statement
                k = j
                if k < len(stmts) and stmts[k].kind == "implicit":
                    imp_line = L(stmts[k])
                    # 11 use after implicit
                    out.append(("use-after-implicit", variant(ins(imp_line + 1, "use iso_fortran_env")), name, [imp_line], None, s.depth))
                    k += 1
                if k < len(stmts) and stmts[k].kind == "vis":
                    k += 1
                spec_at = L(stmts[k]) if k < len(stmts) else ln + 1
                if s.kind == "open-proc":
                    # 7 intent on a non-dummy
                    out.append(("intent-non-dummy", variant(ins(spec_at, "integer, intent(in) :: zz_nd")), name, [spec_at], "zz_nd", s.depth + 1))
                    # 6 delete the declaration of each dummy
                    for d in ent.dummies:
                        dl = [L(x) for x in stmts if x.kind == "decl" and any(isinstance(t, fmodel.Ref) and t.ent is d and t.role == "decl" for t in x.toks)]
                        if dl:
                            nl = list(lines)
                            del nl[dl[0]]
                            out.append(("dummy-undeclared", variant(nl), name, [ln], d.name, s.depth + 1))
                    # 2 masking: re-declare a host variable in an internal procedure
                    if sc.parent is not None:
                        host = [e for n, e in sc.parent.accessible().items() if e.kind in ("variable", "local") and n not in sc.declared
                                and n not in sc.use_visible() and e.scope is not None and e.scope.kind in ("module", "program", "subroutine", "function")
                                and e.scope.declared.get(n) is e]
                        if host:
                            e = sorted(host, key=lambda x: x.id)[0]
                            out.append(("masks-parent", variant(ins(spec_at, f"integer :: {e.name}")), name, [spec_at], e.name, s.depth + 1))
                # 16 interface body (no host association without IMPORT) naming a type of the host: one type of which the
                #    host chain itself declares a variable, one of which it does not
                acc = sc.accessible()
                # (the diagnostic is documented for names that are public entities of a module; spelled with their own name)
                tys = sorted([(n, t) for n, t in acc.items() if t.kind == "type" and t.scope is not None and t.scope.kind == "module" and n == t.name.lower()
                              and (t.vis == "public" or (t.vis is None and not t.scope.default_private))], key=lambda x: (x[0], x[1].id))
                declared_here = set()
                s_ = sc
                while s_ is not None:
                    declared_here |= {id(e.typ[1]) for e in s_.declared.values() if isinstance(e.typ, tuple)}
                    s_ = s_.parent
                picks_t = [x for x in tys if id(x[1]) in declared_here][:1] + [x for x in tys if id(x[1]) not in declared_here][:1]
                for n_, t_ in picks_t:
                    blk = ["interface", "subroutine zz_cb(zz_a)", f"type({n_}) :: zz_a", "end subroutine zz_cb", "end interface"]
                    out.append(("not-imported-in-interface", variant(ins(spec_at, blk)), name, [spec_at + 2], n_, s.depth + 2))
                # 5 type defined in the project but not accessible here
                cands = [t for t in prog.ents if t.kind == "type" and t.name.lower() not in acc and t.scope is not None and t.scope.kind == "module"
                         and not fws.leak_through_private_module(sc, t, name=t.name)
                         and not (t.vis == "private" or (t.vis is None and t.scope.default_private))]
                if cands:
                    t = sorted(cands, key=lambda x: x.id)[0]
                    out.append(("type-not-accessible", variant(ins(spec_at, f"type({t.name}) :: zz_tv")), name, [spec_at], t.name.lower(), s.depth + 1))
        # 9 statements before the first unit of the file
        for text in ("contains", "implicit none", "public", "private"):
            out.append(("outside-scope", variant(ins(0, text)), name, [0], None, 0))
    return out


def diags_of(files, scratch):
    root = os.path.join(scratch, "c07_ws")
    shutil.rmtree(root, ignore_errors=True)
    os.makedirs(root)
    for n, t in files.items():
        with open(os.path.join(root, n), "w") as fh:
            fh.write(t)
    srv = Server(root=root, argv=ARGV)
    out = {}
    for n in sorted(files):
        outs = srv.did_open(os.path.join(root, n))
        got = None
        for o in outs:
            if o.get("method") == "textDocument/publishDiagnostics":
                got = [(d["range"]["start"]["line"], d.get("severity"), d["message"]) for d in o["params"]["diagnostics"]]
            elif o.get("method") == "window/showMessage":
                got = (got or []) + [(-1, 1, "showMessage: " + o["params"].get("message", ""))]
        out[n] = got
    return out


def check_program(ctx, prog, with_abs, scratch):
    r = fmodel.render(prog, fmodel.PLAIN)
    fws.gfortran_sample(ctx, r)
    files = dict(r.files)
    last = sorted(files)[-1]
    if with_abs:
        files["zz_abs.f90"] = ABS_VALID
    discs = []
    base = diags_of(files, scratch)
    for n, ds in base.items():
        if ds is None:
            discs.append(Disc("valid:no-diagnostics-published", f"{n}: no publishDiagnostics after didOpen", {"files": files}))
            continue
        for (ln, sev, msg) in ds:
            if sev == 1:
                label = "valid-program:error:" + re.sub(r'"[^"]*"', '"X"', msg)[:60]
                discs.append(Disc(label, f"valid program, {n}:{ln}: severity-1 diagnostic {msg!r} on {files[n].splitlines()[ln][:70] if 0 <= ln < len(files[n].splitlines()) else '?'!r}",
                                  {"files": files, "file": n}))
    ctx.case(("valid", hash(tuple(sorted(files.items())))), False, classes=["valid-program"])
    if discs:
        return discs
    seeds = seed_positions(prog, r)
    if with_abs:
        bad = ABS_VALID.replace("  contains\n    procedure :: zz_d => zz_impl\n", "")
        endl = [i for i, l in enumerate(bad.splitlines()) if l.strip() == "end type zz_c"][0]
        f2 = dict(files)
        f2["zz_abs.f90"] = bad
        seeds.append(("deferred-unimplemented", f2, "zz_abs.f90", [endl], None, 1))
    seen = set()
    for (cls, nfiles, fname, lines_ok, name, depth) in seeds:
        if with_abs and "zz_abs.f90" not in nfiles:
            nfiles = dict(nfiles)
            nfiles["zz_abs.f90"] = ABS_VALID
        sev, pat = CLASSES[cls]
        rx = re.compile(pat.replace("{name}", re.escape(name)) if name else pat, re.I)
        got = diags_of(nfiles, scratch)
        ds = got.get(fname) or []
        hit = [d for d in ds if rx.search(d[2])]
        ctx.case((cls, hash(tuple(sorted(nfiles.items())))), depth >= 2,
                 sample={"class": cls, "file": fname, "line": lines_ok[0], "text": nfiles[fname].splitlines()[lines_ok[0]][:80]} if depth >= 2 and len(seen) < 2 else None,
                 classes=[f"class:{cls}"])
        case = {"files": nfiles, "file": fname, "class": cls, "lines": lines_ok, "name": name}
        if not hit:
            label = f"seeded:{cls}:not-reported"
            if label not in seen:
                seen.add(label)
                discs.append(Disc(label, f"{cls} seeded at {fname}:{lines_ok[0]} ({nfiles[fname].splitlines()[lines_ok[0]][:70]!r}) not reported; diagnostics {ds[:5]}", case))
        else:
            good = [d for d in hit if d[0] in lines_ok and d[1] == sev]
            if not good:
                why = "wrong-line" if all(d[0] not in lines_ok for d in hit) else "wrong-severity"
                label = f"seeded:{cls}:{why}"
                if label not in seen:
                    seen.add(label)
                    discs.append(Disc(label, f"{cls} seeded at {fname}:{lines_ok} reported as {hit[:3]} (expected severity {sev} on line {lines_ok})", case))
        # no unrelated error, in any file
        allowed = [re.compile(p, re.I) for p in CONSEQ.get(cls, [])] + [rx]
        for fn2, ds2 in got.items():
            for d in ds2 or []:
                if d[1] == 1 and not any(a.search(d[2]) for a in allowed):
                    label = f"seeded:{cls}:unrelated-error:" + re.sub(r'"[^"]*"', '"X"', d[2])[:50]
                    if label not in seen:
                        seen.add(label)
                        discs.append(Disc(label, f"{cls} seeded at {fname}:{lines_ok[0]}: unrelated severity-1 diagnostic {d} in {fn2}", case))
    return discs


case_st = st.tuples(fmodel.program_st(nfiles=(1, 2)), st.booleans())


# ------------------------------------------------------------------ valid idioms (name re-use the language allows)
@st.composite
def idiom_case_st(draw):
    from harness import idioms

    mods = [draw(idioms.idiom_module_st(index=i)) for i in range(draw(st.integers(1, 2)))]
    return {"files": {f"idi{i}.f90": m["text"] for i, m in enumerate(mods)}, "idioms": [m["idioms"] for m in mods], "order": [m["order"] for m in mods]}


def gfortran_accepts(files, scratch):
    import subprocess

    d = os.path.join(scratch, "c07_gf")
    shutil.rmtree(d, ignore_errors=True)
    os.makedirs(d)
    paths = []
    for n in sorted(files):
        with open(os.path.join(d, n), "w") as fh:
            fh.write(files[n])
        paths.append(os.path.join(d, n))
    p = subprocess.run(["gfortran", "-fsyntax-only", "-std=f2018", "-J", d] + paths, capture_output=True, text=True)
    shutil.rmtree(d, ignore_errors=True)
    return None if p.returncode == 0 else p.stderr


def check_idioms(ctx, case, scratch):
    from harness.runner import HarnessError

    if shutil.which("gfortran"):
        err = gfortran_accepts(case["files"], scratch)
        ctx.extra["idiom_programs_validated_with_gfortran"] = ctx.extra.get("idiom_programs_validated_with_gfortran", 0) + 1
        if err:
            raise HarnessError("idiom generator produced a program gfortran rejects:\n" + err[:1500] + "\n" + "\n".join(case["files"].values())[:4000])
    discs = []
    got = diags_of(case["files"], scratch)
    allids = sorted({i for ids in case["idioms"] for i in ids})
    ctx.case(("idioms", hash(tuple(sorted(case["files"].items())))), len(allids) >= 2,
             sample={"idioms": case["idioms"], "order": case["order"]} if len(allids) >= 3 else None, classes=[f"idiom:{i}" for i in allids])
    for n, ds in got.items():
        if ds is None:
            discs.append(Disc("valid:no-diagnostics-published", f"{n}: no publishDiagnostics after didOpen", {"files": case["files"]}))
            continue
        lines = case["files"][n].splitlines()
        for (ln, sev, msg) in ds:
            if sev == 1:
                which = [i for i in allids]
                label = "valid-idiom:error:" + re.sub(r'"[^"]*"', '"X"', msg)[:60]
                discs.append(Disc(label, f"valid module ({'+'.join(which)}), {n}:{ln}: severity-1 diagnostic {msg!r} on {lines[ln].strip()[:70] if 0 <= ln < len(lines) else '?'!r}",
                                  {"files": case["files"], "file": n}))
    return discs


def run(ctx):
    def oracle(v):
        return check_program(ctx, v[0], v[1], ctx.scratch)

    ctx.hyp(case_st, oracle, max_examples=ctx.n(6, 300), collect=bool(os.environ.get("VERIF_COLLECT")),
            case_of=lambda v: {"files": fmodel.render(v[0], fmodel.PLAIN).files})
    ctx.hyp(idiom_case_st(), lambda c: check_idioms(ctx, c, ctx.scratch), max_examples=ctx.n(40, 1500), label="idioms",
            collect=bool(os.environ.get("VERIF_COLLECT")), case_of=lambda c: {"files": c["files"]})
    for sig, v in ctx.violations.items():
        if isinstance(v.get("detail"), dict):
            v["case"] = dict(v["detail"])
        v["case"]["signature"] = sig


def replay(ctx, case):
    got = diags_of(case["files"], ctx.scratch)
    sig = case.get("signature", "c07:replay")
    if "class" not in case:
        out = []
        for n, ds in got.items():
            for d in ds or []:
                if d[1] == 1:
                    out.append(Disc(sig, f"{n}: severity-1 diagnostic {d}"))
        return out[:1]
    sev, pat = CLASSES[case["class"]]
    rx = re.compile(pat.replace("{name}", re.escape(case["name"])) if case.get("name") else pat, re.I)
    ds = got.get(case["file"]) or []
    good = [d for d in ds if rx.search(d[2]) and d[0] in case["lines"] and d[1] == sev]
    out = []
    if ("not-reported" in sig or "wrong" in sig) and not good:
        out.append(Disc(sig, f"{case['class']} at {case['file']}:{case['lines']} -> {ds[:4]}"))
    if "unrelated-error" in sig:
        allowed = [re.compile(p, re.I) for p in CONSEQ.get(case["class"], [])] + [rx]
        for fn2, ds2 in got.items():
            for d in ds2 or []:
                if d[1] == 1 and not any(a.search(d[2]) for a in allowed):
                    out.append(Disc(sig, f"unrelated {d} in {fn2}"))
    return out[:1]
