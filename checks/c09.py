"""C09 — every positional request is total; every returned range lies in its document.

Domain : (A) all repository sample sources as one workspace, (B) textmut mutations of them
         (Hypothesis), (C) one synthetic document per entry of the intrinsic procedure,
         statement and keyword tables; positions: every identifier start/middle/end, every
         punctuation character, every line end and one past it, lines past the end of file
         (thorough tier: every (line, character) of every sample); methods: hover, definition,
         implementation, references, documentHighlight, rename, signatureHelp, completion,
         codeAction (ranges from pairs of positions); (D) preprocessed documents whose macros
         move columns; (E) valid programs: rendered reference-model programs (any layout) and
         idiom modules (generic named like a specific, procedure pointers, operators, ...).
Oracle : no error response; result validates against the method's LSP 3.17 shape; every
         range/location/TextEdit/diagnostic/relatedInformation anywhere in a result or in
         publishDiagnostics addresses an existing place of the server's copy of the target.
"""
from __future__ import annotations

import os
import shutil

from hypothesis import strategies as st

from harness import fmodel, idioms, textmut
from harness.findings import Disc, exc_signature
from harness.lsp import Server, uri_of
from harness.probe import HEAVY, METHODS, Prober, all_positions, interesting_positions

PROPERTY = "C09"
LEVEL = "exploration"
SHARDS = {"quick": 8, "thorough": 16}
RULE = (
    "(A) enumeration: every repository sample (84 files, one workspace) x interesting positions (identifier "
    "start/middle/end, punctuation, end of line, one past it, past end of file; thorough: all (line,char)) x 9 "
    "methods; (B) Hypothesis: textmut mutations of the samples x the same positions; (C) every entry of the "
    "intrinsic/statement/keyword tables as the word under the cursor; (D) preprocessed documents; (E) valid "
    "programs from the reference model and the idiom library.  Non-trivial = the request returned a "
    "non-null result or the position is past the end of a line/file; distinct by (document hash, position, method)."
)
ASSUMPTIONS = [
    "ranges are validated against the server's own copy of the target document (workspace[path].contents_split)",
    "result shapes per LSP 3.17 as encoded in harness/shapes.py",
]

ARGV = ["--disable_autoupdate", "--incremental_sync", "-n", "1", "--enable_code_actions"]


def setup_workspace(root, files):
    shutil.rmtree(root, ignore_errors=True)
    os.makedirs(root)
    for fn, text in files.items():
        with open(os.path.join(root, fn), "w", encoding="utf-8", newline="") as fh:
            fh.write(text)


def probe_document(ctx, srv, path, positions, record, heavy_every=1, dochash=""):
    """Run all methods at all positions; `record(discs, pos, method)` handles reporting."""
    pr = Prober(srv)
    f = srv.file(path)
    k = 0
    for (ln, ch, kind) in positions:
        k += 1
        for method in METHODS:
            if method in HEAVY and heavy_every > 1 and (k % heavy_every) and kind != "past-eof":
                continue
            try:
                if method == "textDocument/codeAction":
                    ln2, ch2 = positions[(k * 7) % len(positions)][:2]
                    discs, res = pr.request(method, path, min(ln, ln2), ch, max(ln, ln2), ch2)
                else:
                    discs, res = pr.request(method, path, ln, ch)
            except Exception as e:
                discs, res = [Disc(exc_signature(e, "HANDLE-EXC"), f"handle() raised {type(e).__name__}: {e}")], None
            nontrivial = (res is not None and res != []) or kind in ("past-eol", "past-eof")
            ctx.case((dochash, ln, ch, method), nontrivial,
                     sample={"file": os.path.basename(path), "method": method, "line": ln, "character": ch,
                             "result": str(res)[:160]} if (res and k % 97 == 0) else None,
                     classes=[method.split("/")[-1]] + (["nonnull"] if res else []) + ([kind] if kind != "word" else []))
            if discs:
                record(discs, (ln, ch), method)
    return pr


def open_all(srv, root, names):
    pr = Prober(srv)
    discs = []
    from harness import shapes

    for n in names:
        outs = srv.did_open(os.path.join(root, n))
        discs += pr.check_notifications(outs, f"didOpen({n})")
        u = uri_of(os.path.join(root, n))
        for method, params in (("textDocument/documentSymbol", {"textDocument": {"uri": u}}), ("workspace/symbol", {"query": n[:2]})):
            resp, notes = srv.request(method, params)
            short = method.split("/")[-1]
            if "error" in resp:
                discs.append(Disc(f"ERROR:{short}", f"{short}({n}): {str(resp['error'])[:200]}"))
                continue
            for prob in shapes.validate(method, resp.get("result")):
                discs.append(Disc(f"shape:{short}:{prob[:40]}", f"{short}({n}): {prob}"))
            discs += pr.check_ranges(resp.get("result"), u, short)
    return discs


# ------------------------------------------------------------------ parts
def part_corpus(ctx):
    files = dict(textmut.corpus())
    root = os.path.join(ctx.scratch, "c09_corpus")
    setup_workspace(root, files)
    srv = Server(root=root, argv=ARGV)
    names = sorted(files)
    mine = [n for i, n in enumerate(names) if i % ctx.nshards == ctx.shard and not n.endswith(".h")]
    ctx.check(open_all(srv, root, mine), {"corpus": True, "file": None, "step": "didOpen"})
    for n in mine:
        path = os.path.join(root, n)
        f = srv.file(path)
        if f is None:
            continue
        lines = list(f.contents_split)
        positions = all_positions(lines) if ctx.tier == "thorough" else interesting_positions(lines, dense=True)

        def record(discs, pos, method, n=n):
            ctx.check(discs, {"corpus": True, "file": n, "method": method, "line": pos[0], "character": pos[1]})

        probe_document(ctx, srv, path, positions, record, heavy_every=1 if ctx.tier == "quick" else 3, dochash=n)
    # documents the server does not hold (never indexed / not existing): still total
    with open(os.path.join(root, "notes.txt"), "w") as fh:
        fh.write("program p\nend program p\n")
    for ghost in ("notes.txt", "missing_%d.f90" % ctx.shard, "sub/dir/x.F90"):
        gp = os.path.join(root, ghost)

        def record(discs, pos, method, ghost=ghost):
            ctx.check(discs, {"corpus": True, "file": ghost, "ghost": True, "method": method, "line": pos[0], "character": pos[1]})

        probe_document(ctx, srv, gp, [(0, 0, "ghost"), (0, 8, "ghost"), (1, 3, "ghost"), (99, 99, "ghost")], record, dochash="ghost" + ghost)
    shutil.rmtree(root, ignore_errors=True)


def intrinsic_words():
    from fortls.parsers.internal.intrinsics import get_intrinsic_keywords, load_intrinsics

    statements, keywords, funs, mods = load_intrinsics()
    words = [f.name for f in funs]
    for ctxid in (0, 1, 2, 3):
        words += [k.name for k in get_intrinsic_keywords(statements, keywords, ctxid)]
    for m in mods:
        words.append(m.name)
        words += [c.name for c in m.get_children()]
    seen, out = set(), []
    for w in words:
        if w.lower() not in seen:
            seen.add(w.lower())
            out.append(w)
    return out


def part_intrinsics(ctx):
    words = intrinsic_words()
    mine = [w for i, w in enumerate(words) if i % ctx.nshards == ctx.shard]
    root = os.path.join(ctx.scratch, "c09_intr")
    step = 12
    for b in range(0, len(mine), step):
        chunk = mine[b : b + step]
        lines = ["program vintr", "  use iso_fortran_env", "  use iso_c_binding", "  implicit none", "  integer :: vx, vy(3)"]
        where = []
        for w in chunk:
            base = w.split("(")[0].strip()
            lines.append(f"  vx = {base}(vy, 1)")
            where.append((len(lines) - 1, 7 + len(base) // 2, w))
            lines.append(f"  call {base}(vx)")
            where.append((len(lines) - 1, 7 + len(base) // 2, w))
            lines.append(f"  {base}")
            where.append((len(lines) - 1, 2 + len(base) // 2, w))
        lines.append("end program vintr")
        text = "\n".join(lines) + "\n"
        setup_workspace(root, {"intr.f90": text})
        srv = Server(root=root, argv=ARGV)
        path = os.path.join(root, "intr.f90")
        ctx.check(open_all(srv, root, ["intr.f90"]), {"files": {"intr.f90": text}, "target": "intr.f90", "step": "didOpen"})
        positions = [(ln, ch, "word") for ln, ch, _ in where]

        def record(discs, pos, method, text=text):
            ctx.check(discs, {"files": {"intr.f90": text}, "target": "intr.f90", "method": method, "line": pos[0], "character": pos[1]})

        probe_document(ctx, srv, path, positions, record, dochash="intr%d" % b)
        ctx.event("intrinsic-table-entries", len(chunk))
    shutil.rmtree(root, ignore_errors=True)


def mutated_oracle(ctx):
    state = {"k": 0}

    def oracle(case):
        text = textmut.resolve_case(case)[:6000]
        suf = os.path.splitext(case.get("seed", "x.f90"))[1] or ".f90"
        if suf == ".h":
            suf = ".F90"
        files = {"doc" + suf: text}
        # two unmutated neighbours so that cross-file answers exist
        names = [n for n, _ in textmut.corpus()]
        state["k"] += 1
        for j in (1, 2):
            nb = names[(hash(case.get("seed", "")) + state["k"] * j) % len(names)]
            if not nb.endswith(".h"):
                files["nb%d_%s" % (j, nb)] = textmut.seed_text(nb)
        root = os.path.join(ctx.scratch, "c09_mut")
        setup_workspace(root, files)
        srv = Server(root=root, argv=ARGV)
        out = list(open_all(srv, root, ["doc" + suf]))
        path = os.path.join(root, "doc" + suf)
        f = srv.file(path)
        if f is None:
            ctx.event("mutated-doc-not-indexed(C03)")
            return []
        lines = list(f.contents_split)
        pos = interesting_positions(lines)
        if len(pos) > 160:
            stride = len(pos) // 160 + 1
            pos = pos[state["k"] % stride :: stride] + pos[-3:]

        def record(discs, p, method):
            for d in discs:
                d.detail = {"method": method, "line": p[0], "character": p[1]}
            out.extend(discs)

        probe_document(ctx, srv, path, pos, record, heavy_every=2, dochash=text)
        return out

    return oracle


# ------------------------------------------------------------------ (D) preprocessed documents whose macros move columns
PP_NAMES = ["loop_counter", "n", "total_mass_of_everything", "k2", "acc"]


@st.composite
def pp_doc_st(draw):
    """A small .F90 unit in which object-like and function-like macros stand for declarations, type names, identifiers
    and expressions, so that a name / column of the expanded text has no (or another) place in the source text."""
    names = list(draw(st.permutations(PP_NAMES)))
    a, b, c, d = names[:4]
    defs, spec, body = [], [], []
    unit = draw(st.sampled_from(["program", "module", "subroutine"]))
    forms = draw(st.lists(st.sampled_from(["decl", "typename", "longident", "shortident", "funlike", "value", "two-on-a-line", "cond"]), min_size=2, max_size=6, unique=True))
    if "decl" in forms:
        defs.append(f"#define DECLARE_IT integer :: {a}")
        spec.append(draw(st.sampled_from(["DECLARE_IT", "  DECLARE_IT", "      DECLARE_IT  ! declares"])))
        body.append(f"{a} = {a} + 1")
        body.append(f"print *, {a}")
    else:
        spec.append(f"integer :: {a}")
    if "typename" in forms:
        defs.append("#define MYREAL real(kind=selected_real_kind(15, 307))")
        spec.append(f"MYREAL :: {b}")
        body.append(f"{b} = 2 * {b}")
    else:
        spec.append(f"real :: {b}")
    if "longident" in forms:
        defs.append(f"#define V a_very_long_replacement_identifier_for_{c}")
        spec.append("integer :: V")
        body.append("V = V + 1; V = 2")
    if "shortident" in forms:
        defs.append(f"#define A_LONG_MACRO_NAME_FOR_SOMETHING_SHORT {d}")
        spec.append("integer :: A_LONG_MACRO_NAME_FOR_SOMETHING_SHORT")
        body.append(f"{d} = A_LONG_MACRO_NAME_FOR_SOMETHING_SHORT + {d}")
    if "funlike" in forms:
        defs.append("#define SQUARE(x) ((x) * (x) + 0 * (x))")
        body.append(f"{a} = SQUARE({a}) + {a}")
        body.append(f"{b} = SQUARE({b} + 1.0) - {b}")
    if "value" in forms:
        defs.append("#define NVAL 12345678")
        spec.append(f"integer, parameter :: npar = NVAL")
        body.append(f"{a} = NVAL + npar")
    if "two-on-a-line" in forms:
        defs.append(f"#define P {a}")
        defs.append(f"#define Q {b}")
        body.append(f"Q = P + Q * P")
    if "cond" in forms:
        defs.append("#define HAVE_IT 1")
        spec += ["#ifdef HAVE_IT", f"integer :: cond_{a}", "#else", f"real :: cond_{a}", "#endif"]
        body.append(f"cond_{a} = {a}")
    defs = list(draw(st.permutations(defs)))
    body = list(draw(st.permutations(body)))
    ind = draw(st.sampled_from(["", "  ", "    "]))
    lines = defs + [f"{unit} ppu"] + ([ind + "implicit none"]) + [l if l.startswith("#") else ind + l for l in spec]
    if unit == "module":
        lines += ["contains", ind + "subroutine work()"] + [l if l.startswith("#") else ind * 2 + l for l in body] + [ind + "end subroutine work"]
    else:
        lines += [l if l.startswith("#") else ind + l for l in body]
    lines.append(f"end {unit} ppu")
    return {"text": "\n".join(lines) + "\n", "forms": sorted(forms), "suffix": draw(st.sampled_from([".F90", ".F90", ".F"]))}


def pp_oracle(ctx):
    def oracle(case):
        text = case["text"]
        if case["suffix"] == ".F":
            # fixed form: statements from column 7, directives in column 1
            text = "\n".join(l if l.startswith("#") else "      " + l.strip() for l in text.split("\n")[:-1]) + "\n"
        name = "ppdoc" + case["suffix"]
        root = os.path.join(ctx.scratch, "c09_pp")
        setup_workspace(root, {name: text})
        srv = Server(root=root, argv=ARGV)
        out = list(open_all(srv, root, [name]))
        path = os.path.join(root, name)
        f = srv.file(path)
        if f is None:
            return out
        lines = list(f.contents_split)
        for fm in case["forms"]:
            ctx.event("pp-doc-form:" + fm)

        def record(discs, p, method):
            for d in discs:
                d.detail = {"method": method, "line": p[0], "character": p[1]}
            out.extend(discs)

        probe_document(ctx, srv, path, all_positions(lines), record, heavy_every=3, dochash=text)
        return out

    return oracle


# ------------------------------------------------------------------ (E) valid programs (reference model, idiom modules)
@st.composite
def valid_case_st(draw):
    if draw(st.integers(0, 2)) == 0:
        prog, layout = draw(fmodel.program_st(nfiles=(1, 2))), draw(fmodel.layout_st)
        files = dict(fmodel.render(prog, layout).files)
        return {"files": files, "kind": "model:" + ("fixed" if layout.fixed else "free")}
    mods = [draw(idioms.idiom_module_st(index=i)) for i in range(draw(st.integers(1, 2)))]
    files = {"idi%d.f90" % i: m["text"] for i, m in enumerate(mods)}
    return {"files": files, "kind": "idioms", "idioms": sorted({i for m in mods for i in m["idioms"]})}


def valid_oracle(ctx):
    state = {"k": 0}

    def oracle(case):
        root = os.path.join(ctx.scratch, "c09_valid")
        setup_workspace(root, case["files"])
        srv = Server(root=root, argv=ARGV)
        names = sorted(case["files"])
        out = list(open_all(srv, root, names))
        ctx.event("valid:" + case["kind"])
        for i in case.get("idioms", []):
            ctx.event("idiom:" + i)
        state["k"] += 1
        for n in names:
            path = os.path.join(root, n)
            f = srv.file(path)
            if f is None:
                continue
            pos = interesting_positions(list(f.contents_split), dense=True)
            if len(pos) > 220:
                stride = len(pos) // 220 + 1
                pos = pos[state["k"] % stride :: stride] + pos[-3:]

            def record(discs, p, method, n=n):
                for d in discs:
                    d.detail = {"target": n, "method": method, "line": p[0], "character": p[1]}
                out.extend(discs)

            probe_document(ctx, srv, path, pos, record, heavy_every=2, dochash=f.contents_split and hash(tuple(f.contents_split)))
        return out

    return oracle


def run(ctx):
    part_corpus(ctx)
    ctx.hyp(valid_case_st(), valid_oracle(ctx), max_examples=ctx.n(10, 150), collect=True, label="valid-programs",
            case_of=lambda c: {"files": c["files"], "target": None, "all_positions": True})
    part_intrinsics(ctx)
    ctx.hyp(pp_doc_st(), pp_oracle(ctx), max_examples=ctx.n(12, 200), collect=True, label="pp-docs",
            case_of=lambda c: {"files": {"ppdoc" + c["suffix"]: c["text"] if c["suffix"] != ".F" else
                                         "\n".join(l if l.startswith("#") else "      " + l.strip() for l in c["text"].split("\n")[:-1]) + "\n"},
                               "target": "ppdoc" + c["suffix"], "all_positions": True})

    def case_of(c):
        text = textmut.resolve_case(c)[:6000]
        suf = os.path.splitext(c.get("seed", "x.f90"))[1] or ".f90"
        return {"files": {"doc" + (".F90" if suf == ".h" else suf): text}, "target": "doc" + (".F90" if suf == ".h" else suf), "all_positions": True}

    ctx.hyp(st.one_of(textmut.mutated_case_st(max_muts=4), textmut.mutated_case_st(max_muts=4), textmut.soup_st(max_lines=15)),
            mutated_oracle(ctx), max_examples=ctx.n(80, 600), collect=True, case_of=case_of)
    # fill in the exact request for collected cases (first failing position) so that replays are precise
    for sig, v in ctx.violations.items():
        if v["case"].get("all_positions") and isinstance(v.get("detail"), dict):
            v["case"].update(v["detail"])
            v["case"].pop("all_positions", None)


def replay(ctx, case):
    if case.get("corpus"):
        files = dict(textmut.corpus())
        target = case.get("file")
    else:
        files = case["files"]
        target = case["target"]
    root = os.path.join(ctx.scratch, "c09_replay")
    setup_workspace(root, files)
    srv = Server(root=root, argv=ARGV)
    discs = []
    names = [target] if (target and not case.get("ghost")) else sorted(n for n in files if not n.endswith(".h"))
    if not case.get("ghost"):
        discs += open_all(srv, root, names)
    if case.get("ghost"):
        with open(os.path.join(root, "notes.txt"), "w") as fh:
            fh.write("program p\nend program p\n")
        d, _ = Prober(srv).request(case["method"], os.path.join(root, target), case["line"], case["character"])
        return d
    if case.get("step") == "didOpen" or target is None:
        return discs
    path = os.path.join(root, target)
    pr = Prober(srv)
    if "method" in case:
        d, _ = pr.request(case["method"], path, case["line"], case["character"])
        return discs + d
    f = srv.file(path)
    if f is None:
        return discs
    out = []

    class _C:  # minimal ctx stand-in for probe_document
        def case(self, *a, **k):
            pass

    probe_document(_C(), srv, path, interesting_positions(list(f.contents_split)), lambda d, p, m: out.extend(d))
    return discs + out
