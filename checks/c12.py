"""C12 — completion offers exactly the accessible names matching the typed prefix.

Domain : every identifier occurrence of an fmodel workspace in a completion-relevant role x drawn
         non-empty proper prefixes, cursor right after the prefix; contexts: statement body, CALL,
         USE, USE ... ONLY:, TYPE( / CLASS( / EXTENDS(, member chains obj%a%b.
Oracle : restricted to *user-declared* names (keywords, intrinsics and top-level unit names are
         ignored): labels ∩ declared names == names the reference scoping (harness/fmodel.py — the
         same model that drives C05, so the two fortls walks get_candidates / find_in_scope are tied
         to one reference) says are accessible there and start with the prefix, case-insensitively,
         filtered by context.
"""
from __future__ import annotations

import dataclasses
import os

from hypothesis import strategies as st

from harness import fmodel, fws
from harness.findings import Disc
from harness.lsp import Server, pos_params

PROPERTY = "C12"
LEVEL = "exploration"
SHARDS = {"quick": 8, "thorough": 16}
RULE = (
    "Hypothesis fmodel programs x every occurrence in a role with a completion context (operand, CALL target, type "
    "reference, USE module, ONLY entry, % member) x up to 2 drawn proper prefixes.  Non-trivial = the expected set has >=2 "
    "members or excludes an inaccessible homonym (a declared entity elsewhere whose name starts with the prefix); "
    "distinct by (program hash, occurrence, prefix)."
)
ASSUMPTIONS = [
    "only user-declared names are compared; derived-type objects after CALL (prefix of obj%proc) and the enclosing function's own name are tolerated either way",
    "layouts without statement splitting/joining",
]

VAR_KINDS = ("variable", "local", "dummy", "assoc")
PROC_KINDS = ("subroutine", "function", "interface")


def expected_for(o, prefix, prog):
    """-> (context label, required names, optional names) or None if the position has no completion context
    the property talks about."""
    p = prefix.lower()
    sc = o.scope
    st_ = o.stmt
    toks = st_.toks
    first_ref = fmodel.call_name_index(toks)  # the name after CALL (also in 'if (c) call name')
    is_call_stmt = first_ref is not None
    if o.role == "member":
        ti = o.tok_i
        bi = fmodel.chain_prev(toks, ti)
        base = toks[bi] if bi is not None else None
        if not isinstance(base, fmodel.Ref) or st_.kind not in ("exec", "open-construct"):
            return None
        bt = base.ent.typ[1] if isinstance(base.ent.typ, tuple) else None
        if bt is None:
            return None
        mem = bt.all_members()
        # the chain that starts a CALL statement: only type-bound procedures are callable
        chain_start = fmodel.chain_root_index(toks, ti)
        if is_call_stmt and chain_start == first_ref and not fmodel.chain_continues(toks, ti):
            req = {n for n, m in mem.items() if n.startswith(p) and m.kind == "binding"}
            opt = {n for n, m in mem.items() if n.startswith(p) and m.kind != "binding"}
            return "call-member", req, opt
        return "member", {n for n in mem if n.startswith(p)}, set()
    if sc is None:
        return None
    acc = sc.accessible()
    if st_.kind in ("exec", "open-construct") and o.role in ("use", "resultuse", "call"):
        if is_call_stmt and o.tok_i == first_ref:
            req = {n for n, e in acc.items() if n.startswith(p) and e.kind in ("subroutine", "interface")}
            opt = {n for n, e in acc.items() if n.startswith(p) and (e.kind == "function" or (e.kind in VAR_KINDS and isinstance(e.typ, tuple)))}
            s_ = sc
            while s_ is not None:  # fortls lists every scope level without shadowing: tolerated
                opt |= {n for n, e in list(s_.declared.items()) + list(s_.use_visible().items())
                        if n.startswith(p) and e.kind in VAR_KINDS and isinstance(e.typ, tuple)}
                s_ = s_.parent
            opt |= {n for n, e in acc.items() if n.startswith(p) and e.kind == "proto"}
            opt |= {e.name.lower() for e in prog.ents if e.attrs.get("external") and e.name.lower().startswith(p)}
            return "call", req, opt
        if st_.kind == "open-construct" and o.tok_i <= 2 and o.role == "use" and isinstance(toks[0], str) and toks[0].startswith("do "):
            return None  # DO variable position
        # external procedures are global names: offered everywhere (tolerated, not required: the model has no callers)
        ext = {e.name.lower() for e in prog.ents if e.attrs.get("external") and e.name.lower().startswith(p)}
        # operands: variables and functions are required; subroutines / generic names / types are tolerated
        req = {n for n, e in acc.items() if n.startswith(p) and e.kind in VAR_KINDS + ("function",)}
        opt = {n for n, e in acc.items() if n.startswith(p) and e.kind in ("type", "subroutine", "interface", "proto")} | ext
        # the associate names introduced by this very statement are not accessible in its selectors
        opt |= {t.ent.name.lower() for t in toks if isinstance(t, fmodel.Ref) and t.role == "decl" and t.ent.kind == "assoc"}
        return "body", req, opt
    if o.role == "typeref" and st_.kind == "decl":
        req = {n for n, e in acc.items() if n.startswith(p) and e.kind == "type"}
        return "type(", req, set()
    if o.role == "usemod":
        req = {m.name.lower() for m in prog.modules if m.name.lower().startswith(p)}
        return "use", req, set()
    if o.role == "only":
        mod = [t for t in toks if isinstance(t, fmodel.Ref) and t.role == "usemod"]
        if not mod:
            return None
        exp = mod[0].ent.inner.exported()
        # prototypes of an abstract interface are offered by fortls only after 'procedure(': tolerated either way here
        return ("use-only", {n for n, e in exp.items() if n.startswith(p) and e.kind != "proto"},
                {n for n, e in exp.items() if n.startswith(p) and e.kind == "proto"})
    return None


_ALIASED = {}


def alias_involved(scope, ent):
    """Is `ent` use-associated under a different local name by some USE statement of the program?  (fortls
    merges all USE paths to a module and maps every imported object through one reversed rename map.)"""
    root = scope.unit()
    prog_key = id(ent)
    return prog_key in _ALIASED.get("set", set())


def chain_root(o):
    """The first object of the % chain the occurrence o belongs to."""
    toks = o.stmt.toks
    return toks[fmodel.chain_root_index(toks, o.tok_i)]


def alias_visible_from(scope, ent):
    """Is `ent` accessible from `scope` (or one of its hosts, shadowing ignored) under a name that is not its own?"""
    s = scope
    while s is not None:
        for n2, e2 in s.use_visible().items():
            if e2 is ent and n2 != ent.name.lower():
                return True
        s = s.parent
    return False


def collect_aliased(prog):
    out = set()

    def walk(sc):
        for u in sc.uses:
            for loc, rem in (u.only or []):
                if loc.lower() != rem.name.lower():
                    out.add(id(rem))
            for loc, _, rem in (u.renames or []):
                out.add(id(rem))
        for ch in sc.children:
            walk(ch)

    for sc in prog.top_scopes:
        walk(sc)
    _ALIASED["set"] = out


def check_program(ctx, prog, layout, picks, scratch):
    layout = dataclasses.replace(layout, split_every=0, join_every=0)
    r = fmodel.render(prog, layout)
    fws.gfortran_sample(ctx, r)
    root = os.path.join(scratch, "c12_ws")
    srv, _ = fws.start(r, root, open_files=False)
    collect_aliased(prog)
    universe = {}
    for e in prog.ents:
        if e.kind in ("module", "program", "construct"):
            continue
        universe.setdefault(e.name.lower(), []).append(e)
    for o in r.occs:
        if o.role == "alias":
            universe.setdefault(o.text.lower(), []).append(o.ent)
    modnames = {m.name.lower() for m in prog.modules}
    discs, seen = [], set()
    nreq = 0
    for idx, o in enumerate(r.occs):
        if len(o.text) < 2:
            continue
        cuts = sorted({1 + picks[(idx + j) % len(picks)] % (len(o.text) - 1) for j in range(2)})
        for cut in cuts:
            prefix = o.text[:cut]
            ex = expected_for(o, prefix, prog)
            if ex is None:
                continue
            context, req, opt = ex
            resp, _ = srv.request("textDocument/completion", pos_params(os.path.join(root, o.file), o.line, o.col + cut))
            nreq += 1
            if "error" in resp:
                discs.append(Disc("completion:error", f"completion at {o.file}:{o.line}:{o.col + cut} -> {str(resp['error'])[:200]}",
                                  {"query": [o.file, o.line, o.col + cut]}))
                continue
            items = resp.get("result") or []
            labels = {str(it.get("label", "")).lower() for it in items}
            pool = modnames if context == "use" else set(universe)
            got = {l for l in labels if l in pool}
            homonym_excluded = any(n.startswith(prefix.lower()) and n not in req and n not in opt for n in pool)
            nt = len(req) >= 2 or homonym_excluded
            ctx.case((hash(tuple(sorted(r.files.items()))), o.file, o.line, o.col, cut), nt,
                     sample={"line": r.lines[o.file][o.line].strip()[:80], "prefix": prefix, "context": context, "expected": sorted(req)[:8]} if nt and idx % 53 == 0 else None,
                     classes=[f"context:{context}"] + (["excludes-homonym"] if homonym_excluded else []))
            missing = req - got
            extra = got - req - opt
            for n in sorted(missing)[:2]:
                e = (o.scope.accessible().get(n) if o.scope is not None and context not in ("member", "use", "use-only") else None)
                kind = e.kind if e is not None else "?"
                via = fws.binding_path(o.scope, n) if e is not None else context
                label = f"completion:{context}:missing:{kind}:via-{via}"
                if str(via).startswith("use-rename-list-reexport"):
                    label = "completion:missing:rename-list-of-a-re-exported-entity"  # same root cause as the C05 finding
                cands = [e] if e is not None else universe.get(n, [])
                if context == "use-only":
                    cands = [x for x in universe.get(n, [])]
                # known: an entity visible here under an alias is offered under the alias only, its own name is dropped.
                # Only that: the missing label must be the entity's own name and an alias of it must be visible from this scope
                if o.scope is not None and any(alias_involved(o.scope, x) and x.name.lower() == n and alias_visible_from(o.scope, x) for x in cands):
                    label = "completion:missing:entity-is-also-use-associated-under-an-alias"
                if context == "use-only":
                    mod = [t for t in o.stmt.toks if isinstance(t, fmodel.Ref) and t.role == "usemod"][0].ent
                    ex_ = mod.inner.exported()
                    if n in ex_ and ex_[n].name.lower() != n:
                        label = "completion:use-only:re-exported-alias-offered-under-its-original-name"
                if context in ("member", "call-member"):
                    b = o.stmt.toks[o.tok_i - 2]
                    if o.scope is not None and any(fws.leak_through_private_module(o.scope, x, name=b.spelling()) for x in universe.get(b.spelling().lower(), []) if x is not b.ent):
                        label = "completion:extra:leaked-through-a-default-PRIVATE-module"
                    elif o.scope is not None and any(fws.hidden_by_rename_list(o.scope, rt.spelling(), x) for rt in [chain_root(o)]
                                                       for x in universe.get(rt.spelling().lower(), []) if x is not rt.ent):
                        # the base object's name is looked up first: fortls finds the entity a rename list hides under that name
                        label = "completion:member:base-object-resolved-to-a-name-hidden-by-a-rename-list"
                if label not in seen:
                    seen.add(label)
                    discs.append(Disc(label, f"{context} completion for {prefix!r} at {o.file}:{o.line}:{o.col + cut} ({r.lines[o.file][o.line].strip()[:60]!r}): "
                                             f"{n!r} not offered; offered user names {sorted(got)[:8]}", {"query": [o.file, o.line, o.col + cut], "missing": n}))
            for n in sorted(extra)[:2]:
                why = "inaccessible-or-wrong-kind"
                ents = universe.get(n, [])
                if o.scope is not None and (context == "use-only" or n not in o.scope.accessible()) and any(fws.leak_through_private_module(o.scope, e, name=n) for e in ents):
                    why = "leaked-through-a-default-PRIVATE-module"
                elif o.scope is not None and n in o.scope.accessible():
                    why = f"accessible-but-wrong-kind({o.scope.accessible()[n].kind})"
                elif o.scope is not None and any(fws.hidden_by_rename_list(o.scope, n, e) for e in ents):
                    why = "name-hidden-by-a-rename-list"
                elif not n.startswith(prefix.lower()):
                    why = "does-not-start-with-prefix"
                label = f"completion:{context}:extra:{why}"
                if why.startswith("leaked"):
                    label = "completion:extra:leaked-through-a-default-PRIVATE-module"
                if why == "name-hidden-by-a-rename-list":
                    label = "completion:extra:name-hidden-by-a-rename-list"
                if context == "use-only":
                    mod = [t for t in o.stmt.toks if isinstance(t, fmodel.Ref) and t.role == "usemod"][0].ent
                    if any(e_.name.lower() == n and k_ != n for k_, e_ in mod.inner.exported().items()):
                        label = "completion:use-only:re-exported-alias-offered-under-its-original-name"
                if label not in seen:
                    seen.add(label)
                    discs.append(Disc(label, f"{context} completion for {prefix!r} at {o.file}:{o.line}:{o.col + cut} ({r.lines[o.file][o.line].strip()[:60]!r}): "
                                             f"{n!r} offered but not expected (expected {sorted(req)[:8]})", {"query": [o.file, o.line, o.col + cut], "extra": n}))
    ctx.extra["requests"] = ctx.extra.get("requests", 0) + nreq
    return discs, r


case_st = st.tuples(fmodel.program_st(), fmodel.layout_st, st.lists(st.integers(0, 40), min_size=3, max_size=7))


def run(ctx):
    def oracle(v):
        return check_program(ctx, v[0], v[1], v[2], ctx.scratch)[0]

    def case_of(v):
        r = fmodel.render(v[0], dataclasses.replace(v[1], split_every=0, join_every=0))
        return {"files": r.files}

    ctx.hyp(case_st, oracle, max_examples=ctx.n(60, 1200), case_of=case_of, collect=bool(os.environ.get("VERIF_COLLECT")))
    for sig, v in ctx.violations.items():
        if isinstance(v.get("detail"), dict):
            v["case"].update(v["detail"])
        v["case"]["signature"] = sig


def replay(ctx, case):
    import shutil

    root = os.path.join(ctx.scratch, "c12_replay")
    shutil.rmtree(root, ignore_errors=True)
    os.makedirs(root)
    for n, t in case["files"].items():
        with open(os.path.join(root, n), "w", newline="") as fh:
            fh.write(t)
    srv = Server(root=root, argv=fws.ARGV)
    if "query" not in case:
        return []
    f, ln, col = case["query"]
    resp, _ = srv.request("textDocument/completion", pos_params(os.path.join(root, f), ln, col))
    labels = {str(it.get("label", "")).lower() for it in (resp.get("result") or [])}
    out = []
    if "missing" in case and case["missing"] not in labels:
        out.append(Disc(case.get("signature", "completion:missing"), f"{case['missing']!r} still not offered at {case['query']}"))
    if "extra" in case and case["extra"] in labels:
        out.append(Disc(case.get("signature", "completion:extra"), f"{case['extra']!r} still offered at {case['query']}"))
    return out
