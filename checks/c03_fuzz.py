"""Thorough-tier part of C03: an Atheris (coverage-guided, libFuzzer) campaign per shard, with the corpus
samples as seeds (even shards) or an empty corpus (odd shards).  Findings are re-evaluated through the
normal C03 oracle in the isolated worker, so known-finding handling and minimisation are the same."""
import glob
import os
import shutil
import subprocess
import sys

from harness import textmut
from harness.findings import Disc

HERE = os.path.dirname(os.path.dirname(os.path.abspath(__file__)))


def campaign(ctx, runner, seconds=None):
    try:
        sys.path.insert(0, os.path.join(HERE, ".deps"))
        import atheris  # noqa: F401
    except Exception as e:  # not installable in this image: say so, do not fail
        ctx.notes["atheris"] = f"not available ({type(e).__name__}): coverage-guided tier skipped"
        return
    seconds = seconds or int(os.environ.get("VERIF_FUZZ_SECONDS", "240"))
    out = os.path.join(ctx.scratch, "c03_fuzz")
    corpus = os.path.join(out, "corpus")
    shutil.rmtree(out, ignore_errors=True)
    os.makedirs(corpus)
    if ctx.shard % 2 == 0:
        for n, t in textmut.corpus():
            with open(os.path.join(corpus, n), "w", encoding="utf-8") as fh:
                fh.write(t[:2048])
    cmd = [sys.executable, os.path.join(HERE, "checks", "c03_atheris.py"), out, corpus, f"-max_total_time={seconds}", "-max_len=2048",
           f"-seed={ctx.seed % (2**31) or 1}", "-timeout=25", f"-artifact_prefix={out}/artifact_", "-print_final_stats=1"]
    env = dict(os.environ, PYTHONHASHSEED="0")
    p = subprocess.run(cmd, capture_output=True, text=True, env=env, timeout=seconds + 600)
    execs = 0
    for line in (p.stderr or "").splitlines():
        if "stat::number_of_executed_units" in line:
            execs = int(line.split(":")[-1].strip())
    ctx.extra["atheris_executions"] = ctx.extra.get("atheris_executions", 0) + execs
    ctx.event("atheris-campaign:" + ("seeded" if ctx.shard % 2 == 0 else "empty-corpus"))
    new = len(glob.glob(os.path.join(corpus, "*")))
    ctx.extra["atheris_corpus_size"] = ctx.extra.get("atheris_corpus_size", 0) + new
    cands = glob.glob(os.path.join(out, "findings", "*.txt")) + glob.glob(os.path.join(out, "artifact_*"))
    for fn in cands:
        with open(fn, "rb") as fh:
            text = fh.read().decode("utf-8", "replace")
        discs = runner.discs_for(text, True)
        ctx.case(text, True, classes=["atheris-finding-candidate"])
        ctx.check(discs, {"text": text, "from": "atheris"})
    # libFuzzer keeps inputs that add coverage: re-check a sample of them through the full oracle (incl. L1)
    for fn in sorted(glob.glob(os.path.join(corpus, "*")))[:200]:
        with open(fn, "rb") as fh:
            text = fh.read().decode("utf-8", "replace")
        ctx.case(text, True, classes=["atheris-corpus-entry"])
        ctx.check(runner.discs_for(text, True), {"text": text, "from": "atheris-corpus"})
    shutil.rmtree(out, ignore_errors=True)
