"""C20 — cyclic and self-referential program structure never causes unbounded recursion.

Domain : a cycle catalogue (USE, EXTENDS, submodule ancestry, pointer initialisation, ASSOCIATE,
         SELECT TYPE binding, type-bound procedure links, procedure pointers, Fortran INCLUDE,
         #include, recursive component types / deep member chains, generic interfaces naming
         themselves) x cycle length 1-4 x spread over 1-4 files x Hypothesis-drawn embedding
         (surrounding declarations, order of files, which member of the cycle is opened first);
         then every position-based request at every identifier, plus didOpen/didSave diagnostics.
Oracle : C09's totality / shape / range oracle + a CPU-time bound for the whole case + no
         response or message mentioning RecursionError / maximum recursion depth + the server
         still answers a trivial request afterwards.  Runs in an isolated, CPU-bounded worker.
"""
from __future__ import annotations

import os
import re
import shutil

from hypothesis import strategies as st

from harness.findings import Disc, exc_signature
from harness.worker import Worker

PROPERTY = "C20"
LEVEL = "exploration"
SHARDS = {"quick": 8, "thorough": 16}
CPU_LIMIT = 60.0
RULE = (
    "catalogue of 19 cycle shapes x length 1-4 x 1-4 files x drawn embedding (extra declarations, file order, "
    "variant of the linking statement); every positional method at every identifier of every file, diagnostics on "
    "open/save, start-up indexing.  Quick tier: full catalogue x lengths 1-2 enumerated plus drawn embeddings; "
    "thorough: lengths 1-4 x many embeddings.  Non-trivial = the queried identifier lies on the cycle; distinct by "
    "(shape, length, files, method)."
)
ASSUMPTIONS = [
    "bounded time = 60 s CPU for indexing a <=4-file workspace and answering every positional request in it (typical: <0.5 s)",
    "the recursion limit is the server's default (--recursion_limit 1000)",
]

SHAPES = ["use", "extends", "submodule", "pointer-init", "associate", "select-type", "tbp-link", "proc-pointer",
          "fortran-include", "cpp-include", "component-type", "member-chain", "generic-interface", "use-rename",
          "extends-tail", "proc-self-interface", "include-between-scopes", "associate-graph", "pointer-graph"]


def names(prefix, n):
    return [f"{prefix}{i+1}" for i in range(n)]


def build(case):
    """-> (files: {name: text}, cycle_words: set of identifiers that lie on the cycle)"""
    shape, n, nfiles, v = case["shape"], case["length"], case["nfiles"], case["variant"]
    extra = case.get("extra", 0)
    units = []  # list of (text) program-unit sources, distributed over files later
    words = set()
    filler = "".join(f"  integer :: fill{j}\n" for j in range(extra))
    if shape in ("use", "use-rename"):
        ms = names("cmod", n)
        for i, m in enumerate(ms):
            nxt = ms[(i + 1) % n]
            if shape == "use-rename":
                use = f"  use {nxt}, only: r{i} => v_{nxt}\n" if v % 2 == 0 else f"  use {nxt}, only: v_{nxt}\n"
            else:
                use = f"  use {nxt}\n"
            units.append(f"module {m}\n{use}  implicit none\n{filler}  integer :: v_{m}\ncontains\n  subroutine s_{m}()\n    v_{m} = v_{nxt} + 1\n"
                         f"  end subroutine s_{m}\nend module {m}\n")
            words |= {m, f"v_{m}", f"s_{m}"}
        units.append(f"program cmain\n  use {ms[0]}\n  implicit none\n  call s_{ms[0]}()\n  v_{ms[-1]} = 2\nend program cmain\n")
    elif shape == "extends":
        ts = names("ctyp", n)
        body = ""
        for i, t in enumerate(ts):
            nxt = ts[(i + 1) % n]
            bind = f"  contains\n    procedure :: bnd => impl_{t}\n" if v % 2 else ""
            body += f"  type, extends({nxt}) :: {t}\n    integer :: c_{t}\n{bind}  end type {t}\n"
            words |= {t, f"c_{t}"}
        impls = "".join(f"  subroutine impl_{t}(self)\n    class({t}) :: self\n    self%c_{t} = self%c_{ts[(i+1)%n]}\n  end subroutine impl_{t}\n"
                        for i, t in enumerate(ts)) if v % 2 else ""
        if nfiles > 1 and n > 1:
            # one type per module, modules using each other
            for i, t in enumerate(ts):
                nxt = ts[(i + 1) % n]
                units.append(f"module m_{t}\n  use m_{nxt}\n  implicit none\n  type, extends({nxt}) :: {t}\n    integer :: c_{t}\n  end type {t}\nend module m_{t}\n")
            units.append(f"program cmain\n  use m_{ts[0]}\n  type({ts[0]}) :: obj\n  obj%c_{ts[0]} = 1\n  obj%c_{ts[-1]} = 2\nend program cmain\n")
        else:
            units.append(f"module cmod\n  implicit none\n{filler}{body}  type({ts[0]}) :: obj\ncontains\n{impls}  subroutine use_it()\n"
                         f"    obj%c_{ts[0]} = 1\n    obj%c_{ts[-1]} = obj%c_{ts[0]}\n    call obj%bnd()\n  end subroutine use_it\nend module cmod\n")
    elif shape == "submodule":
        ss = names("csub", n)
        units.append("module cparent\n  implicit none\n  interface\n    module subroutine work()\n    end subroutine work\n  end interface\nend module cparent\n")
        for i, s in enumerate(ss):
            nxt = ss[(i + 1) % n]
            head = f"submodule ({nxt}) {s}" if v % 3 == 0 else (f"submodule (cparent:{nxt}) {s}" if v % 3 == 1 else f"submodule ({nxt}:{s}) {s}")
            units.append(f"{head}\n  implicit none\n{filler}  integer :: sv_{s}\ncontains\n  module subroutine work()\n    sv_{s} = 1\n  end subroutine work\n"
                         f"  subroutine helper_{s}()\n    sv_{s} = sv_{s} + 1\n  end subroutine helper_{s}\nend submodule {s}\n")
            words |= {s, f"sv_{s}"}
    elif shape == "pointer-init":
        vs = names("cptr", n)
        typ = ["integer, pointer", "real, pointer", "class(*), pointer", "type(ct), pointer"][v % 4]
        decl = "".join(f"  {typ} :: {a} => {vs[(i+1)%n]}\n" for i, a in enumerate(vs))
        units.append(f"module cmod\n  implicit none\n  type ct\n    integer :: q\n  end type ct\n{filler}{decl}contains\n  subroutine use_it()\n"
                     + "".join(f"    {a} = {a}\n" for a in vs) + "  end subroutine use_it\nend module cmod\n")
        words |= set(vs)
    elif shape == "associate":
        vs = names("casc", n)
        pairs = ", ".join(f"{a} => {vs[(i+1)%n]}" for i, a in enumerate(vs))
        outer = f"    integer :: {vs[0]}\n" if v % 2 else ""
        units.append(f"program cmain\n  implicit none\n{filler}  integer :: other\n  call sub()\ncontains\n  subroutine sub()\n{outer}    associate ({pairs})\n"
                     + "".join(f"      other = {a} + {a}\n" for a in vs) + "    end associate\n  end subroutine sub\nend program cmain\n")
        words |= set(vs)
    elif shape == "select-type":
        vs = names("csel", n)
        nest, close = "", ""
        for i, a in enumerate(vs):
            nest += "  " * i + f"    select type ({a} => {vs[(i+1)%n]})\n" + "  " * i + "    type is (integer)\n" + "  " * i + f"      other = {a}\n"
            if v % 2:
                nest += "  " * i + "    class default\n" + "  " * i + f"      other = {a}\n"
            close = "  " * i + "    end select\n" + close
        units.append(f"module cmod\n  implicit none\n{filler}  integer :: other\ncontains\n  subroutine sub({vs[0]})\n    class(*) :: {vs[0]}\n{nest}{close}  end subroutine sub\nend module cmod\n")
        words |= set(vs)
    elif shape == "tbp-link":
        ps = names("cbnd", n)
        binds = "".join(f"    procedure{[', nopass', '', ', pass(self)'][v % 3]} :: {p} => {ps[(i+1)%n]}\n" for i, p in enumerate(ps))
        gen = f"    generic :: gen => {ps[0]}\n" if v % 2 else ""
        units.append(f"module cmod\n  implicit none\n  type ct\n    integer :: q\n  contains\n{binds}{gen}  end type ct\n{filler}contains\n  subroutine use_it(self)\n"
                     f"    class(ct) :: self\n" + "".join(f"    call self%{p}()\n" for p in ps) + ("    call self%gen()\n" if v % 2 else "")
                     + "  end subroutine use_it\nend module cmod\n")
        words |= set(ps)
    elif shape == "proc-pointer":
        ps = names("cprc", n)
        decl = "".join(f"  procedure({vs}), pointer :: {p} => {ps[(i+1)%n]}\n" for i, p in enumerate(ps)
                       for vs in [ps[(i + (v % 2)) % n]])
        units.append(f"module cmod\n  implicit none\n{filler}{decl}contains\n  subroutine use_it()\n" + "".join(f"    call {p}()\n" for p in ps)
                     + "  end subroutine use_it\nend module cmod\n")
        words |= set(ps)
    elif shape == "fortran-include":
        fs = [f"cinc{i+1}.f90" for i in range(n)]
        files = {}
        for i, f in enumerate(fs):
            files[f] = f"      integer :: iv{i+1}\n      include '{fs[(i+1)%n]}'\n"
        files["cmain.f90"] = (f"program cmain\n  implicit none\n{filler}  include '{fs[0]}'\n  iv1 = 1\n"
                              + "".join(f"  iv{i+1} = iv1\n" for i in range(n)) + "end program cmain\n")
        return files, {f"iv{i+1}" for i in range(n)} | {f[:-4] for f in fs}
    elif shape == "cpp-include":
        fs = [f"chdr{i+1}.h" for i in range(n)]
        files = {}
        for i, f in enumerate(fs):
            guard = f"#ifndef G{i}\n" if v % 2 else ""
            files[f] = f"{guard}#define HV{i+1} {i+1}\n#include \"{fs[(i+1)%n]}\"\n" + ("#endif\n" if v % 2 else "")
        files["cmain.F90"] = (f'#include "{fs[0]}"\nprogram cmain\n  implicit none\n{filler}  integer :: k\n'
                              + "".join(f"  k = HV{i+1}\n" for i in range(n)) + "#if HV1 > 0\n  k = 2\n#endif\nend program cmain\n")
        return files, {f"HV{i+1}" for i in range(n)}
    elif shape == "component-type":
        ts = names("ctyp", n)
        body = "".join(f"  type {t}\n    type({ts[(i+1)%n]}), pointer :: nx_{t} => null()\n    integer :: c_{t}\n  end type {t}\n" for i, t in enumerate(ts))
        chain = "%".join(f"nx_{ts[i % n]}" for i in range(2 * n + 1))
        units.append(f"module cmod\n  implicit none\n{filler}{body}  type({ts[0]}) :: obj\ncontains\n  subroutine use_it()\n    obj%{chain}%c_{ts[(2*n+1) % n]} = 1\n"
                     f"    obj%nx_{ts[0]} => obj%{chain}\n  end subroutine use_it\nend module cmod\n")
        words |= set(ts) | {f"nx_{t}" for t in ts} | {f"c_{t}" for t in ts}
    elif shape == "member-chain":
        depth = [5, 29, 31, 40][v % 4] + n
        chain = "%".join(["nx"] * depth)
        units.append(f"module cmod\n  implicit none\n  type node\n    type(node), pointer :: nx => null()\n    integer :: val\n  end type node\n{filler}  type(node) :: head\n"
                     f"contains\n  subroutine use_it()\n    head%{chain}%val = 1\n    call work(head%{chain}%\n  end subroutine use_it\nend module cmod\n")
        words |= {"nx", "val", "head"}
    elif shape == "generic-interface":
        gs = names("cgen", n)
        body = "".join(f"  interface {g}\n    module procedure {gs[(i+1)%n]}\n  end interface {g}\n" for i, g in enumerate(gs))
        impl = "".join(f"  subroutine {g}_impl()\n    call {g}()\n  end subroutine {g}_impl\n" for g in gs) if v % 2 else ""
        units.append(f"module cmod\n  implicit none\n{filler}{body}contains\n{impl}  subroutine use_it()\n" + "".join(f"    call {g}()\n" for g in gs)
                     + "  end subroutine use_it\nend module cmod\n")
        words |= set(gs)
    elif shape in ("associate-graph", "pointer-graph"):
        # every mapping name -> name over n names (n**n of them, chosen by case["graph"]): rings, self-loops, several names
        # sharing one selector / target, chains running into a cycle
        vs = names("cgr", n)
        g = case.get("graph", v)
        tgt = [vs[(g // (n ** i)) % n] for i in range(n)]
        words |= set(vs)
        if shape == "associate-graph":
            pairs = ", ".join(f"{a} => {t}" for a, t in zip(vs, tgt))
            outer = f"    integer :: {vs[-1]}\n" if v % 2 else ""
            units.append(f"program cmain\n  implicit none\n{filler}  integer :: other\n  call sub()\ncontains\n  subroutine sub()\n{outer}    associate ({pairs})\n"
                         + "".join(f"      other = {a} + {a}\n" for a in vs) + "    end associate\n  end subroutine sub\nend program cmain\n")
        else:
            typ = ["integer, pointer", "class(*), pointer", "type(ct), pointer"][v % 3]
            decl = "".join(f"  {typ} :: {a} => {t}\n" for a, t in zip(vs, tgt))
            units.append(f"module cmod\n  implicit none\n  type ct\n    integer :: q\n  end type ct\n{filler}{decl}contains\n  subroutine use_it()\n"
                         + "".join(f"    {a} => {a}\n" for a in vs) + "  end subroutine use_it\nend module cmod\n")
    elif shape == "extends-tail":
        # an EXTENDS cycle of n types plus a chain of 1-2 types outside the cycle that extends into it; all of them bind
        # the same name (walks that start outside the cycle never come back to their start)
        ts = names("ctyp", n)
        tail = names("ctail", 1 + v % 2)
        body = ""
        allt = []
        for i, t in enumerate(ts):
            allt.append((t, ts[(i + 1) % n]))
        for j, t in enumerate(tail):
            allt.append((t, ts[v % n] if j == 0 else tail[j - 1]))
        if v % 3 == 0:
            allt.reverse()
        for t, parent in allt:
            body += f"  type, extends({parent}) :: {t}\n    integer :: c_{t}\n  contains\n    procedure :: run => run_{t}\n  end type {t}\n"
            words |= {t, f"c_{t}", f"run_{t}"}
        impls = "".join(f"  subroutine run_{t}(self)\n    class({t}) :: self\n    self%c_{t} = 1\n  end subroutine run_{t}\n" for t, _ in allt)
        words |= {"run"}
        units.append(f"module cmod\n  implicit none\n{filler}{body}  type({tail[-1]}) :: obj\n  type({ts[0]}) :: cyc\ncontains\n{impls}  subroutine use_it()\n"
                     f"    call obj%run()\n    call cyc%run()\n    obj%c_{tail[-1]} = cyc%c_{ts[0]}\n  end subroutine use_it\nend module cmod\n")
    elif shape == "proc-self-interface":
        # procedures whose dummy procedures name the procedure itself (or each other, a ring of n) as their interface
        ps = names("cprc", n)
        unitsrc = ""
        for i, p in enumerate(ps):
            nxt = ps[(i + 1) % n]
            kind = ["subroutine", "function"][v % 2]
            res = f"    integer :: {p}\n    {p} = 1\n" if kind == "function" else f"    call cb(cb)\n"
            unitsrc += f"  {kind} {p}(cb)\n    procedure({nxt}) :: cb\n{res}  end {kind} {p}\n"
        ptr = f"  procedure({ps[0]}), pointer :: pp => {ps[0]}\n" if v % 3 == 0 else ""
        use = "".join(f"    call {p}({ps[(i+1)%n]})\n" for i, p in enumerate(ps)) if v % 2 == 0 else "".join(f"    k = {p}({ps[(i+1)%n]})\n" for i, p in enumerate(ps))
        units.append(f"module cmod\n  implicit none\n{filler}{ptr}  integer :: k\ncontains\n{unitsrc}  subroutine use_it()\n{use}  end subroutine use_it\nend module cmod\n")
        words |= set(ps) | {"cb"}
    elif shape == "include-between-scopes":
        # n files of loose declarations, each with a procedure that INCLUDEs the next file (containment ring)
        fs = [f"cloose{i+1}.f90" for i in range(n)]
        files = {}
        for i, f in enumerate(fs):
            host = ["subroutine", "function"][v % 2]
            files[f] = (f"integer :: lv{i+1}\n{filler}contains\n{host} inner{i+1}()\n  include '{fs[(i+1)%n]}'\n"
                        + (f"  lv{i+1} = lv{(i+1)%n+1}\n" if v % 3 else "") + f"end {host} inner{i+1}\n")
        if v % 4 == 0:
            files["cmain.f90"] = f"program cmain\n  implicit none\n  include '{fs[0]}'\nend program cmain\n"
        return files, {f"lv{i+1}" for i in range(n)} | {f"inner{i+1}" for i in range(n)}
    # distribute units over files
    files = {}
    k = max(1, min(nfiles, len(units)))
    order = list(range(len(units)))
    if case.get("reverse"):
        order.reverse()
    for j, ui in enumerate(order):
        fn = f"cfile{j % k + 1}.f90"
        files[fn] = files.get(fn, "") + units[ui] + "\n"
    return files, words


case_st = st.fixed_dictionaries({
    "shape": st.sampled_from(SHAPES),
    "length": st.integers(1, 4),
    "nfiles": st.integers(1, 4),
    "variant": st.integers(0, 11),
    "extra": st.integers(0, 3),
    "reverse": st.booleans(),
    "open_first": st.integers(0, 3),
    "graph": st.integers(0, 255),
})


# ------------------------------------------------------------------ runs in the worker
def execute(case, scratch):
    from harness.lsp import Server, uri_of
    from harness.probe import METHODS, Prober

    files, words = build(case)
    root = os.path.join(scratch, "c20_ws")
    shutil.rmtree(root, ignore_errors=True)
    os.makedirs(root)
    for fn, text in files.items():
        with open(os.path.join(root, fn), "w") as fh:
            fh.write(text)
    out = []
    on_cycle = 0

    def add(discs):
        for d in discs:
            out.append((d.sig, d.what))

    def scan_recursion(objs, where):
        for o in objs:
            s = str(o)
            if "RecursionError" in s or "maximum recursion depth" in s:
                out.append(("RECURSION-MESSAGE:" + where, f"{where}: {s[:300]}"))
                return

    try:
        srv = Server(root=root, argv=["--disable_autoupdate", "--incremental_sync", "-n", "1", "--enable_code_actions"])
        scan_recursion(srv.init_notes + [srv.init_response], "initialize")
        if "error" in (srv.init_response or {}):
            out.append(("ERROR:initialize", f"initialize failed: {str(srv.init_response)[:300]}"))
        pr = Prober(srv)
        fns = sorted(f for f in files if not f.endswith(".h"))
        k = case.get("open_first", 0) % len(fns)
        fns = fns[k:] + fns[:k]
        for fn in fns:
            path = os.path.join(root, fn)
            for step in ("didOpen", "didSave"):
                outs = srv.did_open(path) if step == "didOpen" else srv.did_save(path)
                scan_recursion(outs, step)
                add(pr.check_notifications(outs, f"{step}({fn})"))
                for o in outs:
                    if o.get("method") == "window/showMessage" and o["params"].get("type") == 1:
                        out.append((f"MESSAGE:{step}:" + re.sub(r"'[^']*'|/\S+", "<p>", o["params"]["message"])[:60],
                                    f"{step}({fn}) -> {o['params']['message'][:200]}"))
            if srv.file(path) is None:
                out.append(("FILE-NOT-INDEXED", f"{fn} is not in the index after didOpen"))
        for fn in fns:
            path = os.path.join(root, fn)
            f = srv.file(path)
            if f is None:
                continue
            for ln, text in enumerate(list(f.contents_split)):
                for m in re.finditer(r"[A-Za-z_]\w*", text):
                    if m.group(0).lower() in ("integer", "implicit", "none", "end", "contains", "real", "pointer"):
                        continue
                    col = m.start() + min(1, len(m.group(0)) - 1)
                    hit = m.group(0) in words or m.group(0).lower() in {w.lower() for w in words}
                    on_cycle += 1 if hit else 0
                    for method in METHODS:
                        discs, res = pr.request(method, path, ln, col, ln, col + 1)
                        add(discs)
        # the server must still be alive and sane
        resp, _ = srv.request("workspace/symbol", {"query": ""})
        if "error" in resp or not isinstance(resp.get("result"), list):
            out.append(("NOT-ALIVE", f"workspace/symbol after the session: {str(resp)[:200]}"))
        nreq = pr.requests
    except RecursionError as e:
        out.append((exc_signature(e, "ESCAPED"), "RecursionError escaped the server"))
        nreq = 0
    except Exception as e:
        out.append((exc_signature(e, "ESCAPED"), f"{type(e).__name__}: {e}"))
        nreq = 0
    shutil.rmtree(root, ignore_errors=True)
    # de-duplicate
    seen, uniq = set(), []
    for s, w in out:
        if s not in seen:
            seen.add(s)
            uniq.append((s, w))
    return {"discs": uniq, "requests": nreq, "on_cycle": on_cycle, "files": {k: v[:300] for k, v in list(files.items())[:2]}}


class Runner:
    def __init__(self, ctx):
        self.ctx = ctx
        self.w = Worker("checks.c20:execute")

    def oracle(self, case):
        status, val, cpu = self.w.call((case, self.ctx.scratch), cpu_limit=CPU_LIMIT)
        if status == "timeout":
            return [Disc("TIMEOUT:cpu>60s", f"case {case['shape']}/{case['length']} used more than {CPU_LIMIT}s CPU")]
        if status == "died":
            return [Disc(f"DIED:rc={val}", f"the interpreter died (exit {val}) on {case['shape']}/{case['length']}")]
        if "harness_error" in val:
            from harness.runner import HarnessError

            raise HarnessError(val["harness_error"])
        self.ctx.extra["requests"] = self.ctx.extra.get("requests", 0) + val["requests"]
        self.ctx.case((case["shape"], case["length"], case["nfiles"], case["variant"], case.get("extra"), case.get("reverse")),
                      val["on_cycle"] > 0, sample={"case": case, "files": val["files"]},
                      classes=[f"shape:{case['shape']}", f"len:{case['length']}"])
        return [Disc(s, w) for s, w in val["discs"]]


def run(ctx):
    r = Runner(ctx)
    try:
        # enumerated part: full catalogue x lengths (quick: 1-2, thorough: 1-4) x nfiles {1, length}
        lengths = (1, 2) if ctx.tier == "quick" else (1, 2, 3, 4)
        k = 0
        for shape in SHAPES:
            for n in lengths:
                for nf in sorted({1, n}):
                    for v in range(4 if ctx.tier == "quick" else 12):
                        k += 1
                        if k % ctx.nshards != ctx.shard:
                            continue
                        case = {"shape": shape, "length": n, "nfiles": nf, "variant": v, "extra": 0, "reverse": False, "open_first": 0}
                        ctx.check(r.oracle(case), case)
        # every mapping graph over 1-3 names (quick) / 1-4 names (thorough), both shapes
        for shape in ("associate-graph", "pointer-graph"):
            for n in ((1, 2, 3) if ctx.tier == "quick" else (1, 2, 3, 4)):
                for g in range(n ** n):
                    k += 1
                    if k % ctx.nshards != ctx.shard:
                        continue
                    case = {"shape": shape, "length": n, "nfiles": 1, "variant": g % 2, "extra": 0, "reverse": False, "open_first": 0, "graph": g}
                    ctx.check(r.oracle(case), case)
        ctx.hyp(case_st, r.oracle, max_examples=ctx.n(150, 800), collect=True)
    finally:
        r.w.close()


def replay(ctx, case):
    r = Runner(ctx)
    try:
        return r.oracle(case)
    finally:
        r.w.close()
