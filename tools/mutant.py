#!/usr/bin/env python3
"""Sensitivity trials: run checks against a mutated scratch copy of /repo.

  tools/mutant.py --name N --file fortls/x.py --old 'text' --new 'text' [--count 1] -- C02 C09
  tools/mutant.py --name N --patch some.diff -- C02

The copy lives under /dev/shm and is removed afterwards; evidence/replays of the trial go to a
scratch directory, never to /verif/evidence.  Prints one line per check: KILLED / SURVIVED / ERROR.
"""
import argparse, os, shutil, subprocess, sys, tempfile

HERE = os.path.dirname(os.path.dirname(os.path.abspath(__file__)))

def main():
    ap = argparse.ArgumentParser()
    ap.add_argument("--name", required=True)
    ap.add_argument("--file"); ap.add_argument("--old"); ap.add_argument("--new")
    ap.add_argument("--count", type=int, default=1)
    ap.add_argument("--patch")
    ap.add_argument("--tier", default="quick")
    ap.add_argument("--seed", default="1")
    ap.add_argument("--budget", default=None)
    ap.add_argument("--keep", action="store_true")
    ap.add_argument("checks", nargs="+")
    a = ap.parse_args()
    base = tempfile.mkdtemp(prefix=f"mut_{a.name}_", dir="/dev/shm")
    repo = os.path.join(base, "repo"); out = os.path.join(base, "out")
    try:
        subprocess.check_call(["rsync", "-a", "--exclude", ".git", "--exclude", "htmlcov", "--exclude", "__pycache__",
                               "--exclude", "*.egg-info", "/repo/", repo + "/"])
        if a.patch:
            subprocess.check_call(["patch", "-p1", "-s", "-d", repo, "-i", os.path.abspath(a.patch)])
        else:
            p = os.path.join(repo, a.file)
            s = open(p).read()
            if s.count(a.old) != a.count:
                print(f"MUTANT-ERROR {a.name}: pattern occurs {s.count(a.old)} times, expected {a.count}")
                return 2
            open(p, "w").write(s.replace(a.old, a.new))
        rc_all = 0
        for c in a.checks:
            env = dict(os.environ, VERIF_REPO=repo, VERIF_OUT=out, VERIF_SEED=a.seed)
            if a.budget:
                env["VERIF_BUDGET"] = a.budget
            p = subprocess.run([os.path.join(HERE, "vcheck"), c, "--tier", a.tier], env=env, capture_output=True, text=True)
            v = [l for l in p.stdout.splitlines() if l.startswith(("VIOLATION", "  discrepancy", "HARNESS"))]
            status = {0: "SURVIVED", 1: "KILLED", 2: "ERROR"}.get(p.returncode, f"rc={p.returncode}")
            print(f"{status} mutant={a.name} check={c} :: " + (" | ".join(x.strip()[:200] for x in v[:3]) or p.stdout.strip().splitlines()[-1][:200]))
            if p.returncode == 2:
                print(p.stdout[-1500:], p.stderr[-1500:])
    finally:
        if not a.keep:
            shutil.rmtree(base, ignore_errors=True)
    return 0

if __name__ == "__main__":
    sys.exit(main())
