#!/usr/bin/env python3
"""Seeded changes (/verif/seeded/<id>/): confirm the demonstration and run checks against them.

  tools/seeded.py demo  ID            # demo.py on a scratch copy of /repo with and without the change
  tools/seeded.py trial ID C04 C13    # run checks against the scratch copy with the change applied
  tools/seeded.py one <id>            # demo + the checks of meta.json "caught_by"
  tools/seeded.py matrix [N]          # 'one' for every id, N at a time; the summary line ends the output
  tools/seeded.py all                 # demo + trial (checks from meta.json "caught_by"/"trial_checks") for every id

The patch used is patch_rebased.diff when it exists (the change expressed against the current tree,
needed once a later fix: commit touched the same lines), else patch.diff.  Scratch copies live
under /dev/shm and are removed; nothing is ever applied to /repo itself.  The demos locate the
tree as the parent of the directory they sit in, so the seeded directory is copied to <copy>/SEEDED.
"""
import json, os, shutil, subprocess, sys, tempfile

HERE = os.path.dirname(os.path.dirname(os.path.abspath(__file__)))
REPO = os.environ.get("VERIF_REPO", "/repo")
PY = "/venv/bin/python"


def patch_of(sid):
    d = os.path.join(HERE, "seeded", sid)
    p = os.path.join(d, "patch_rebased.diff")
    return p if os.path.exists(p) else os.path.join(d, "patch.diff")


def scratch(sid, apply):
    base = tempfile.mkdtemp(prefix=f"seed_{sid}_", dir="/dev/shm")
    repo = os.path.join(base, "repo")
    subprocess.check_call(["rsync", "-a", "--exclude", ".git", "--exclude", "htmlcov", "--exclude", "__pycache__", "--exclude", "*.egg-info",
                           REPO + "/", repo + "/"])
    if apply:
        subprocess.check_call(["patch", "-p1", "-s", "-d", repo, "-i", patch_of(sid)])
    shutil.copytree(os.path.join(HERE, "seeded", sid), os.path.join(repo, "SEEDED"))
    return base, repo


def demo(sid):
    out = {}
    for apply in (True, False):
        base, repo = scratch(sid, apply)
        try:
            env = dict(os.environ, PYTHONPATH=repo, PYTHONHASHSEED="0")
            p = subprocess.run([PY, "SEEDED/demo.py"], cwd=repo, env=env, capture_output=True, text=True, timeout=900)
            out[apply] = p.returncode
        finally:
            shutil.rmtree(base, ignore_errors=True)
    ok = out[True] == 1 and out[False] == 0
    print(f"{'CONFIRMED' if ok else 'NOT-CONFIRMED'} seeded={sid} demo exit with change={out[True]} without={out[False]} patch={os.path.basename(patch_of(sid))}")
    return ok


def trial(sid, checks, tier="quick", seed=os.environ.get("VERIF_SEED", "1")):
    base, repo = scratch(sid, True)
    res = {}
    try:
        for c in checks:
            env = dict(os.environ, VERIF_REPO=repo, VERIF_OUT=os.path.join(base, "out"), VERIF_SEED=seed)
            p = subprocess.run([os.path.join(HERE, "vcheck"), c, "--tier", tier], env=env, capture_output=True, text=True)
            v = [l.strip() for l in p.stdout.splitlines() if l.startswith("  discrepancy")]
            st = {0: "SURVIVED", 1: "KILLED", 2: "ERROR"}.get(p.returncode, f"rc={p.returncode}")
            res[c] = st
            print(f"{st} seeded={sid} check={c} :: " + (v[0][:220] if v else p.stdout.strip().splitlines()[-1][:220]))
            if p.returncode == 2:
                print(p.stdout[-1500:], p.stderr[-1500:])
    finally:
        shutil.rmtree(base, ignore_errors=True)
    return res


def main():
    a = sys.argv[1:]
    if not a:
        print(__doc__)
        return 2
    if a[0] == "demo":
        return 0 if demo(a[1]) else 1
    if a[0] == "trial":
        trial(a[1], a[2:])
        return 0
    if a[0] == "one":
        # demo + the checks that are expected to catch the change (meta.json "caught_by"); one line per result
        sid = a[1]
        meta = json.load(open(os.path.join(HERE, "seeded", sid, "meta.json")))
        if meta.get("status") == "subsumed":
            print(f"SUBSUMED seeded={sid} (kept for the record, see meta.json)")
            return 0
        ok = demo(sid)
        res = trial(sid, meta.get("caught_by") or [meta["breaks"]])
        return 0 if ok and all(v == "KILLED" for v in res.values()) else 1
    if a[0] == "matrix":
        # every seeded change against the checks expected to catch it, N changes at a time
        from concurrent.futures import ThreadPoolExecutor

        jobs = int(a[1]) if len(a) > 1 else 3
        sids = sorted(d for d in os.listdir(os.path.join(HERE, "seeded")) if os.path.exists(os.path.join(HERE, "seeded", d, "meta.json")))

        def run(sid):
            p = subprocess.run([sys.executable, os.path.abspath(__file__), "one", sid], capture_output=True, text=True)
            return sid, p.returncode, p.stdout

        bad = 0
        with ThreadPoolExecutor(jobs) as ex:
            for sid, rc, out in ex.map(run, sids):
                sys.stdout.write(out)
                sys.stdout.flush()
                bad += 1 if rc else 0
        print(f"MATRIX {len(sids)} seeded changes, {bad} not confirmed-and-killed")
        return 1 if bad else 0
    if a[0] == "all":
        bad = 0
        for sid in sorted(os.listdir(os.path.join(HERE, "seeded"))):
            mp = os.path.join(HERE, "seeded", sid, "meta.json")
            if not os.path.exists(mp):
                continue
            meta = json.load(open(mp))
            if meta.get("status") == "subsumed":
                print(f"SUBSUMED seeded={sid} (kept for the record, see meta.json)")
                continue
            if not demo(sid):
                bad += 1
            res = trial(sid, meta.get("trial_checks") or meta.get("caught_by") or [meta["breaks"]])
            if any(res.get(c) != "KILLED" for c in meta.get("caught_by", [])):
                bad += 1
        return 1 if bad else 0
    print(__doc__)
    return 2


if __name__ == "__main__":
    sys.exit(main())
