#!/usr/bin/env python3
"""Writes /verif/MANIFEST.json from the table below and validates it against the schema."""
import json
import os
import sys

HERE = os.path.dirname(os.path.dirname(os.path.abspath(__file__)))

BASELINE = ("cd /repo && /venv/bin/python -m pytest -ra -q -p no:cacheprovider --timeout=900 "
            "--continue-on-collection-errors")

# id -> (level category, technique, level text, level note, design ref)
CHECKS = {
    "C02": (
        "exploration",
        "Hypothesis stateful (RuleBasedStateMachine) model-based testing against an LSP client reference model",
        "Generated edit histories (ranged/full/multi-change, LF/CRLF/CR, save, discard-and-reopen) are applied "
        "to FortranFile.apply_change directly and to a real in-process LangServer; after every step the "
        "server's line list must equal that of a client model written from the LSP specification. "
        "Thousands of histories per run; absence of violations is evidence, not proof.",
        "Trusts the client reference model in checks/c02.py (UTF-16 positions, split on CRLF|LF|CR). A lone CR "
        "fusing with an LF across an edit boundary is excluded by construction (ambiguous between conforming clients).",
        "DESIGN.md §3 C02",
    ),
    "C03": (
        "exploration",
        "Hypothesis mutational + grammar (statement-soup) fuzzing with a totality/termination oracle in an isolated worker; ddmin minimisation; Atheris campaign in the thorough tier",
        "Every generated text (mutated corpus files, statement soup cut mid-token) is indexed as .F90/.f90/.f directly "
        "and through didOpen/didChange/initialize of a real server, inside a child process whose CPU time is bounded; "
        "any exception, refusal message, hang (>10 s CPU) or unqueryable index is a violation, collected per root cause "
        "and minimised.",
        "Documents up to ~300 lines; 'bounded time' is decided with a generous CPU bound, so slow-but-finite behaviour below it is not flagged.",
        "DESIGN.md §3 C03",
    ),
    "C08": (
        "exploration",
        "bounded exhaustive enumeration of conditional skeletons + Hypothesis trees, differential against a reference C preprocessor (itself cross-checked with GNU cpp)",
        "Active-line sets, executed #define/#undef lines, the final macro table, expanded text of active lines and the set of "
        "indexed marker declarations are compared with harness/ppref.py for every enumerated skeleton and every generated tree / macro case.",
        "Trusts harness/ppref.py (validated against GNU cpp -P on a sample of the same cases in every run). Domain excludes "
        "redefinition without #undef, macros in macro bodies/strings/comments. Expansions are compared modulo blanks.",
        "DESIGN.md §3 C08",
    ),
    "C16": (
        "exploration",
        "Hypothesis round-trip / differential testing against an independent LSP frame codec, drawn read-chunk schedules, real-pipe sessions",
        "Messages written by the server's connection object are re-read by an independent strict reader; framed streams from an "
        "independent writer (either header order, raw UTF-8 or escaped bodies, drawn chunk sizes) must decode to the messages sent; "
        "URIs round-trip; a few python -m fortls sessions over real pipes with non-ASCII paths and identifiers.",
        "Trusts harness/lsp.py's codec; no lone surrogates; paths absolute and normalised.",
        "DESIGN.md §3 C16",
    ),
    "C17": (
        "exploration",
        "Hypothesis-generated adversarial workspaces (payload grammar x injection points) under a runtime audit-hook monitor, plus real process trees with an injected sitecustomize monitor",
        "Every payload shape x injection point is indexed, edited, saved and queried while sys.addaudithook records code evaluation, "
        "process, network and file-mutation events; any evaluation of marked text, any such side effect, a sentinel file or a changed "
        "workspace snapshot is a violation. The monitor self-tests that it sees a planted eval/open/unlink before each run.",
        "Python-level audit events only (fortls has no C extension); debug_log and update check off; payload grammar is finite though parametrised.",
        "DESIGN.md §3 C17",
    ),
    "C01": (
        "exploration",
        "Hypothesis-generated message histories with structural param mutation and harness-side fault injection, checked against a reference session model through an independent frame reader",
        "Sequences of up to ~130 requests/notifications (all handlers, malformed params, unknown methods, exit anywhere, long bursts, "
        "repeated ids) run through the real LangServer.run() loop (and python -m fortls for a share); the emitted responses must equal the "
        "model's list of (id, class) in order, everything else must be a notification, all frames JSON. One internal function may be "
        "made to raise at its k-th call so the dispatcher's error paths are exercised even when the parser has no live defect.",
        "Only well-formed JSON-RPC requests/notifications; the reference model is checks/c01.py:expected_responses.",
        "DESIGN.md §3 C01",
    ),
    "C09": (
        "exploration",
        "enumeration of (document x position x method) over the sample corpus and intrinsic tables + Hypothesis text mutation, with a totality / LSP-shape / range-in-document oracle",
        "Every positional method is sent at every interesting position (thorough: every position) of every repository sample, of mutated "
        "samples and on every intrinsic/keyword table entry; an error response, a result not matching the LSP 3.17 shape, or any range that "
        "does not address an existing place of the server's copy of the target document is a violation (grouped by failing code site). "
        "Also generated: preprocessed documents whose macros move columns, and valid programs (reference-model programs in any layout, idiom modules).",
        "Shapes as encoded in harness/shapes.py; ranges validated against the server's own buffer of the target document.",
        "DESIGN.md §3 C09",
    ),
    "C20": (
        "exploration",
        "enumerated cycle catalogue x Hypothesis-drawn embeddings, probed with every positional request in a CPU-bounded isolated worker (totality / shape / range / no-recursion-error oracle)",
        "14 cycle shapes (USE, USE with renames, EXTENDS, submodule ancestry, pointer init, ASSOCIATE, SELECT TYPE, type-bound links, procedure "
        "pointers, Fortran INCLUDE, #include, recursive component types, deep member chains, generic interfaces) x length 1-4 x 1-4 files are "
        "indexed at start-up and through didOpen/didSave, then every positional method is sent at every identifier; an error response, a "
        "recursion message, a dead server, a malformed answer or more than 60 s CPU is a violation.",
        "Bounded time is decided with a generous CPU bound; the catalogue is finite (shapes listed in checks/c20.py).",
        "DESIGN.md §3 C20",
    ),
    "C18": (
        "exploration",
        "Hypothesis-generated directory trees and discovery options, differential against an independent reference model of the documented rule (own glob expander)",
        "Real directory trees with documented, look-alike and configured suffixes are indexed under drawn source_dirs / excl_paths (literal, relative, "
        "absolute, *, ?, **) / incl_suffixes / excl_suffixes given by file or CLI; the set of files in the server's index and the set of files whose "
        "uniquely named module is returned by workspace/symbol must equal harness/fsmodel.py's expected set.",
        "Trusts harness/fsmodel.py; no symlinks/dot-directories; a configured source_dirs never expands to the root alone; mixed-case suffixes not generated.",
        "DESIGN.md §3 C18",
    ),
    "C19": (
        "fault_enumeration",
        "enumeration of option x channel cells and of configuration-file faults, differential against a reference run that gets the effective values by CLI only; Hypothesis for option pairs/triples",
        "Every documented option is exercised in the cells file-only, both (two orders), CLI + silent file, with each configuration file name (pp_defs also in its list spelling); "
        "an observable battery (capabilities, messages, discovered files, diagnostics, outline, hover, completion, signature help, recursion "
        "limit) and the option attributes must equal those of a server given the model's effective values on the command line. Faulty files "
        "(missing named file, empty, truncated, garbage, non-object top level, wrong value types) must produce a message, leave the battery as "
        "in the no-file run and let initialize complete. Each effectful option must change the battery (so a doubly ignored option is seen).",
        "Reference model: effective = file value if named in the file else CLI value else default. disable_autoupdate on, debug_log off.",
        "DESIGN.md §3 C19",
    ),
    "C05": (
        "exploration",
        "Hypothesis grammar-based program generation with a reference scoping model (gfortran-validated) as oracle for go-to-definition at every occurrence",
        "Multi-file programs are generated so that every use site has exactly one binding under the model's reference implementation of "
        "Fortran scoping (local/host/USE with ONLY, renames, PUBLIC/PRIVATE, re-export, inherited components); definition is requested at "
        "every occurrence (drawn cursor offset) and must land on the bound declaration. Mismatches are classified from their local context "
        "(role, how the reference bound the name, what fortls returned instead: nothing / a homonym / a PRIVATE entity of another module).",
        "Covers the constructs of harness/fmodel.py, not the whole language; layout is limited to non-structural variation here (C13 covers splitting/joining).",
        "DESIGN.md §3 C05",
    ),
    "C06": (
        "exploration",
        "Hypothesis grammar-based program generation; occurrence-table oracle for references / documentHighlight / rename, plus rename round trip through a fresh server",
        "For sampled entities of every generated program the results of references and documentHighlight (from several occurrences) and the "
        "edits of rename must equal the model's occurrence set (required: occurrences spelled with the entity's own name; optional: alias-"
        "spelled, function-result and same-name-binding occurrences); missing and extra ranges are classified from local context (same name one "
        "separator earlier, inside comment / character literal, bound to a homonym, role). Exact renames are applied and re-indexed: all edited "
        "occurrences must resolve to one renamed declaration. Hand-built programs cover names containing '$'.",
        "Occurrence table of harness/fmodel.py; layouts without statement splitting/joining; per program at most 14 entities are queried.",
        "DESIGN.md §3 C06",
    ),
    "C04": (
        "exploration",
        "Hypothesis grammar-based program generation with the model's block structure as oracle for documentSymbol and workspace/symbol",
        "For every generated program and layout (END spellings full / keyword only / bare / joined, case, spacing, comments, line endings) the "
        "outline must contain each unit and each directly contained procedure / type / named interface exactly once with the right kind, container "
        "and the lines of its opening and END statements, type members once under their type, and no entry that matches no declared entity; "
        "workspace/symbol for drawn queries must equal the set of units and module members whose name contains the query, sorted by name. "
        "Every fourth program gets a file with a host module, a submodule and a submodule of that submodule (header spellings, END forms, contents drawn).",
        "Members of a main program are tolerated in workspace/symbol (fortls treats a program like a module); deeper-nested outline entries are not required.",
        "DESIGN.md §3 C04",
    ),
    "C13": (
        "exploration",
        "metamorphic testing: the same generated abstract program rendered in a plain and in a drawn layout; normalised dumps compared by entity/statement",
        "Outline entries, the definition target of every occurrence (mapped back to the occurrence it lands on) and diagnostics of the "
        "re-laid-out program (LF/CRLF/CR, trailing blanks, comments, blank lines, keyword/identifier case, END spellings, & continuation with and "
        "without leading &, ; joining incl. declarations) must equal those of the plain rendering; differences are classified by the local "
        "context of the statement involved (use site / target declaration / base object declaration / type definition continued or joined).",
        "Both renderings come from one abstract statement list (same meaning by construction; transformed text sampled through gfortran).",
        "DESIGN.md §3 C13",
    ),
    "C14": (
        "exploration",
        "metamorphic / differential testing of paired fixed-form and free-form renderings of generated programs; form-detection oracle from the renderer",
        "Each generated program is rendered in fixed form (column rules, drawn continuation mark and comment flags, labelled DO with shared "
        "terminal labels, 72-column limit; gfortran-validated on a sample) and in free form; the file's `fixed` flag must be True resp. False, and "
        "the fixed rendering's outline, per-occurrence definition targets and diagnostics must equal the free rendering's by entity/statement.",
        "Heuristic form detection is known to misclassify two free layouts (listed as known findings); continuation-related differences are classified as in C13.",
        "DESIGN.md §3 C14",
    ),
    "C10": (
        "exploration",
        "Hypothesis-generated sync-event histories over generated multi-file workspaces, differential against a fresh server on the same directory",
        "Histories of open / full or ranged change to a semantic variant / save / close / create / delete+close / external modification+save over a "
        "generated workspace plus a hand-written bundle (INCLUDE, submodule, cpp with a shared header and a two-directory include, three-level EXTENDS across files), "
        "bursts of up to 1999 changes between two saves, with intermediate query batteries to populate "
        "caches; after every open document has been saved the normalised battery (indexed files, diagnostics, outline, workspace symbols, definition, "
        "hover, references, completion) of the long-lived server must equal that of a freshly initialised one.",
        "Deletions are communicated by closing the document; plain .f90 files do not share macro names; the battery samples up to 30 identifiers per file.",
        "DESIGN.md §3 C10",
    ),
    "C15": (
        "exploration",
        "differential testing across harness-owned schedules/configurations: worker count (real Pool), hash seed (fresh process per seed), permuted os.listdir/os.walk order, open-one-at-a-time order",
        "For generated multi-directory workspaces plus a cross-linked bundle (and, half of the time, one header name in two include directories), the normalised battery of every drawn configuration (nthreads 1..16, "
        "PYTHONHASHSEED, listing-order permutation - exhaustive for a 4-file directory in the thorough tier -, or starting empty and opening the files "
        "in a drawn order) must equal that of the reference configuration.",
        "The interleaving of Pool workers is sampled, not controlled; unit names are unique.",
        "DESIGN.md §3 C15",
    ),
    "C12": (
        "exploration",
        "Hypothesis grammar-based program generation; reference-scoping oracle (the same model as C05) for completion at drawn prefixes of every occurrence, per context",
        "At every occurrence in a completion-relevant role (operand, CALL target, TYPE( reference, USE module, ONLY entry, % member, call obj% member) "
        "and for drawn proper prefixes the set of offered user-declared names must equal the names the reference scoping says are accessible there "
        "and start with the prefix, filtered by context; misses and extras are classified (alias-related merge, leak through a default-PRIVATE module, "
        "re-exported alias, role/kind).",
        "Only user-declared names are compared; some kinds are tolerated per context (types/subroutines in operand position, derived-type objects and functions after CALL, shadowed host objects).",
        "DESIGN.md §3 C12",
    ),
    "C07": (
        "fault_enumeration",
        "Hypothesis-generated valid programs (gfortran-validated) with exhaustive per-program enumeration of (defect class, seeding position) faults; pattern/severity/line oracle per class",
        "Every generated valid program must publish no severity-1 diagnostic; then each of the 15 documented defect classes is seeded at every applicable "
        "position of that program (duplicate declaration, masking, bare END for each construct, unknown module, inaccessible type, undeclared dummy, INTENT on "
        "non-dummy, second CONTAINS, statements before the first unit, IMPORT outside interface, USE after IMPLICIT, missing CONTAINS, procedure in TYPE/BLOCK, "
        "unimplemented deferred binding, over-long line) and the class's diagnostic must appear with its severity on the offending line with no unrelated error.",
        "Severities and accepted lines follow the implementation (CLASSES / CONSEQ tables in checks/c07.py); programs are limited to fmodel's constructs.",
        "DESIGN.md §3 C07",
    ),
    "C11": (
        "exploration",
        "Hypothesis grammar-based generation of declarations / documented procedures / call sites with known ground truth; hover parsed back by a normaliser (round trip), signature-help oracle",
        "Drawn declarations (type x selector incl. nested parentheses x attribute order x entity-level dims/len, also against a DIMENSION attribute / length selector of the statement, x initialiser x documentation placement; "
        "gfortran-validated on a sample) are hovered and the code block is parsed back into (type, selector, attribute set, name, value, documentation) and "
        "compared with the generated declaration; procedure hovers must list the dummies and their declarations in order with their documentation; "
        "signatureHelp at every argument position (positional, plain, keyword in any order, relational values, comparisons on names of dummies, cursor inside inner parentheses) must mark the right parameter.",
        "Hover text is compared after upper-casing and removing blanks; documentation styles may be mixed between neighbouring entities (classified).",
        "DESIGN.md §3 C11",
    ),
}

NOT_YET = "check not built yet in this session (work in progress; see DESIGN.md §3 for the planned generator and oracle)"


def main():
    props = [json.loads(l)["id"] for l in open(os.path.join(HERE, "properties.jsonl")) if l.strip()]
    checks = []
    for pid in props:
        if pid not in CHECKS:
            continue
        cat, tech, text, note, ref = CHECKS[pid]
        checks.append({
            "property_id": pid,
            "quick_cmd": f"./vcheck {pid} --tier quick",
            "thorough_cmd": f"./vcheck {pid} --tier thorough",
            "evidence_file": f"/verif/evidence/{pid}.json",
            "replay_cmd_template": f"./vcheck {pid} --replay {{path}}",
            "engine": "vcheck",
            "level_claimed": {"category": cat, "text": text, "design_ref": ref},
            "level_note": note,
            "technique": tech,
        })
    na_file = os.path.join(HERE, "tools", "not_applicable.json")
    na_reasons = json.load(open(na_file)) if os.path.exists(na_file) else {}
    m = {
        "version": 1,
        "setup_cmd": "./setup.sh",
        "hooks": {
            "guard": "FORTLS_VERIF",
            "enable": "no source hooks are needed: every observation point is public API or the process "
                      "boundary; checks import fortls from /repo's working tree in a fresh interpreter",
            "baseline_off_cmd": BASELINE,
            "source_commits": [],
            "add_only": True,
        },
        "engines": [{
            "name": "vcheck",
            "path": "/verif/vcheck",
            "serves_properties": [c["property_id"] for c in checks],
            "kind_free_text": "property-based testing / fuzzing runner (Hypothesis strategies and state machines, "
                              "bounded exhaustive enumeration, Atheris) with explicit oracles, sharded over processes",
        }],
        "checks": checks,
        "not_applicable": [{"property_id": p, "reason": na_reasons.get(p, NOT_YET)} for p in props if p not in CHECKS],
        "notes": "Exit 0 = held (KNOWN-FINDING lines for entries of known_findings.json), 1 = VIOLATION, 2 = harness error. "
                 "VERIF_SEED selects the Hypothesis seed; VERIF_TIER or --tier the depth.",
    }
    path = os.path.join(HERE, "MANIFEST.json")
    with open(path, "w") as f:
        json.dump(m, f, indent=1)
    try:
        sys.path.insert(0, os.path.join(HERE, ".deps"))
        import jsonschema

        jsonschema.validate(m, json.load(open("/root/.vp/MANIFEST.schema.json")))
        print("MANIFEST.json valid:", len(checks), "checks,", len(m["not_applicable"]), "not_applicable")
    except ImportError:
        print("jsonschema not available; not validated")


if __name__ == "__main__":
    main()
