#!/bin/sh
# tools/run_tier.sh TIER [IDs...]  - run checks of one tier one after the other and print one summary line each.
# Honours VERIF_REPO / VERIF_OUT; inside `vp run --with-repo` the snapshot of /repo is used automatically.
cd "$(dirname "$0")/.." || exit 2
tier="$1"; shift
[ -n "$VP_RUN_REPO" ] && export VERIF_REPO="$VP_RUN_REPO"
[ -n "$VP_RUN_DIR" ] && export VERIF_OUT="${VERIF_OUT:-$VP_RUN_DIR/out}"
./setup.sh >/dev/null 2>&1
[ $# -eq 0 ] && set -- C01 C02 C03 C04 C05 C06 C07 C08 C09 C10 C11 C12 C13 C14 C15 C16 C17 C18 C19 C20
logdir="${VERIF_OUT:-/dev/shm}/tierlogs"; mkdir -p "$logdir"
bad=0
for id in "$@"; do
  s=$(date +%s)
  ./vcheck "$id" --tier "$tier" > "$logdir/$id.out" 2>&1
  rc=$?
  [ $rc -ne 0 ] && bad=1
  echo "$id rc=$rc $(( $(date +%s) - s ))s :: $(grep -h '^OK\|^FAIL\|^HARNESS' "$logdir/$id.out" | tail -1 | cut -c1-170)"
  grep -h '^VIOLATION\|^  discrepancy' "$logdir/$id.out" | cut -c1-300 | head -6
done
echo "TIER $tier done, bad=$bad"
exit $bad
