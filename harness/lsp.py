"""Independent LSP framing codec and drivers for the fortls server (in-process and subprocess).

Nothing here uses fortls.jsonrpc to encode or decode frames: the reader/writer below are
written from the LSP base-protocol specification, so they can serve as an oracle.
"""
from __future__ import annotations

import io
import json
import logging
import os
import subprocess
import sys

REPO = os.environ.get("VERIF_REPO", "/repo")


# ---------------------------------------------------------------------------- codec
def frame(obj, ct_first: bool = False, content_type: bool = False, ensure_ascii: bool = False) -> bytes:
    body = json.dumps(obj, ensure_ascii=ensure_ascii, separators=(",", ":")).encode("utf-8")
    cl = b"Content-Length: %d\r\n" % len(body)
    ct = b"Content-Type: application/vscode-jsonrpc; charset=utf-8\r\n"
    if ct_first:
        head = ct + cl
    elif content_type:
        head = cl + ct
    else:
        head = cl
    return head + b"\r\n" + body


class FrameError(Exception):
    pass


def read_frames(data: bytes, strict: bool = True):
    """Parse a byte string into JSON messages.  Returns (messages, errors)."""
    out, errs, i = [], [], 0
    while i < len(data):
        j = data.find(b"\r\n\r\n", i)
        if j < 0:
            errs.append(f"trailing bytes without header terminator at {i}: {data[i:i+60]!r}")
            break
        n = None
        try:
            for h in data[i:j].decode("ascii").split("\r\n"):
                k, _, v = h.partition(":")
                if k.strip().lower() == "content-length":
                    n = int(v.strip())
        except (UnicodeDecodeError, ValueError) as e:
            errs.append(f"bad header block at {i}: {data[i:j][:80]!r} ({e})")
            break
        if n is None:
            errs.append(f"no Content-Length in header block at {i}: {data[i:j][:80]!r}")
            break
        body = data[j + 4 : j + 4 + n]
        if len(body) != n:
            errs.append(f"body shorter than Content-Length ({len(body)} < {n}) at {i}")
            break
        try:
            out.append(json.loads(body.decode("utf-8")))
        except (UnicodeDecodeError, ValueError) as e:
            errs.append(f"body of frame at {i} is not UTF-8 JSON: {e}: {body[:80]!r}")
            break
        i = j + 4 + n
    return out, errs


def req(i, method, params=None):
    d = {"jsonrpc": "2.0", "id": i, "method": method}
    if params is not None:
        d["params"] = params
    return d


def note(method, params=None):
    d = {"jsonrpc": "2.0", "method": method}
    if params is not None:
        d["params"] = params
    return d


def uri_of(path: str) -> str:
    from urllib.parse import quote

    return "file://" + quote(path)


def pos_params(path, line, ch, **extra):
    d = {"textDocument": {"uri": uri_of(path)}, "position": {"line": line, "character": ch}}
    d.update(extra)
    return d


# ------------------------------------------------------------------- module-state reset
_DEF_RECURSION = sys.getrecursionlimit()


def reset_fortls_globals():
    """fortls keeps a few module-level settings; reset them so cases are independent."""
    import fortls.helper_functions as hf
    import fortls.parsers.internal.intrinsics as intr

    hf.sort_keywords = True
    intr.lowercase_intrinsics = False
    if sys.getrecursionlimit() != _DEF_RECURSION:
        sys.setrecursionlimit(_DEF_RECURSION)
    logging.disable(logging.CRITICAL)


class _SyncResult:
    def __init__(self, fn, args):
        try:
            self.v, self.e = fn(*args), None
        except BaseException as e:  # mirrors AsyncResult.get re-raising
            self.v, self.e = None, e

    def get(self, timeout=None):
        if self.e is not None:
            raise self.e
        return self.v


class SyncPool:
    """Drop-in for multiprocessing.Pool that runs in-process (used by L1 for speed; the
    real Pool path is exercised by C15 and by all L2 checks).  Objects are passed through
    pickle exactly like the real pool does."""

    def __init__(self, processes=None):
        pass

    def apply_async(self, fn, args=()):
        import pickle

        # arguments and results cross a process boundary in the real pool: copy them the same way,
        # so that in-place mutation of e.g. include_dirs inside a task stays inside the task
        r = _SyncResult(fn, pickle.loads(pickle.dumps(args)))
        if r.e is None:
            r.v = pickle.loads(pickle.dumps(r.v))
        return r

    def close(self):
        pass

    def join(self):
        pass


DEFAULT_ARGV = ["--disable_autoupdate", "--incremental_sync", "-n", "1"]


class Server:
    """L1: a real LangServer over in-memory streams, one message at a time."""

    def __init__(self, root=None, argv=None, init=True, fast_pool=True, init_params=None):
        from fortls.interface import cli
        from fortls.jsonrpc import JSONRPC2Connection, ReadWriter
        import fortls.langserver as ls

        reset_fortls_globals()
        self._ls = ls
        if fast_pool:
            ls.Pool = SyncPool
        else:
            import multiprocessing

            ls.Pool = multiprocessing.Pool
        self.argv = list(DEFAULT_ARGV if argv is None else argv)
        settings = vars(cli("fortls").parse_args(self.argv))
        self.out = io.BytesIO()
        self.conn = JSONRPC2Connection(ReadWriter(io.BytesIO(b""), self.out))
        self.s = ls.LangServer(self.conn, settings)
        self.next_id = 1
        self.frame_errors = []
        self.root = root
        self.init_response = None
        self.init_notes = []
        if init:
            p = {"rootPath": root} if root is not None else {}
            if init_params:
                p.update(init_params)
            self.init_response, self.init_notes = self.request("initialize", p)

    def _drain(self):
        data = self.out.getvalue()
        self.out.seek(0)
        self.out.truncate()
        msgs, errs = read_frames(data)
        self.frame_errors += errs
        return msgs

    def handle(self, msg):
        """Feed one message exactly as LangServer.run() would, return everything emitted."""
        self.s.handle(msg)
        for message in self.s.post_messages:
            self.s.post_message(message[1], message[0])
        self.s.post_messages = []
        return self._drain()

    def request(self, method, params=None):
        i = self.next_id
        self.next_id += 1
        outs = self.handle(req(i, method, params))
        resp = [o for o in outs if o.get("id") == i and "method" not in o]
        notes = [o for o in outs if not (o.get("id") == i and "method" not in o)]
        return (resp[0] if len(resp) == 1 else {"_responses": resp}), notes

    def notify(self, method, params=None):
        return self.handle(note(method, params))

    # convenience -------------------------------------------------------------------
    def did_open(self, path, text=None):
        td = {"uri": uri_of(path)}
        if text is not None:
            td.update({"languageId": "fortran", "version": 1, "text": text})
        return self.notify("textDocument/didOpen", {"textDocument": td})

    def did_save(self, path):
        return self.notify("textDocument/didSave", {"textDocument": {"uri": uri_of(path)}})

    def did_close(self, path):
        return self.notify("textDocument/didClose", {"textDocument": {"uri": uri_of(path)}})

    def did_change(self, path, changes):
        return self.notify("textDocument/didChange",
                           {"textDocument": {"uri": uri_of(path)}, "contentChanges": changes})

    def diagnostics(self, path):
        outs = self.did_save(path) if path in self.s.workspace else self.did_open(path)
        return outs

    def file(self, path):
        return self.s.workspace.get(path)


def run_stream(data: bytes, argv=None, fast_pool=True):
    """L1 stream mode: the real run() loop over a framed byte stream."""
    from fortls.interface import cli
    from fortls.jsonrpc import JSONRPC2Connection, ReadWriter
    import fortls.langserver as ls

    reset_fortls_globals()
    if fast_pool:
        ls.Pool = SyncPool
    else:
        import multiprocessing

        ls.Pool = multiprocessing.Pool
    settings = vars(cli("fortls").parse_args(list(DEFAULT_ARGV if argv is None else argv)))
    out = io.BytesIO()
    s = ls.LangServer(JSONRPC2Connection(ReadWriter(io.BufferedReader(io.BytesIO(data)), out)), settings)
    s.run()
    return out.getvalue(), s


def run_subprocess(data: bytes, argv=None, cwd=None, env=None, timeout=120):
    """L2: python -m fortls over real pipes."""
    e = dict(os.environ)
    e["PYTHONPATH"] = REPO + os.pathsep + e.get("PYTHONPATH", "")
    if env:
        e.update(env)
    cmd = [sys.executable, "-m", "fortls"] + list(DEFAULT_ARGV if argv is None else argv)
    p = subprocess.run(cmd, input=data, capture_output=True, cwd=cwd, env=e, timeout=timeout)
    return p.returncode, p.stdout, p.stderr
