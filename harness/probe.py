"""Positional-request prober shared by C09 and C20: sends every position-based request and
applies the totality / shape / range-in-document oracle to each response."""
from __future__ import annotations

import re

from harness import shapes
from harness.findings import Disc, traceback_signature
from harness.lsp import uri_of

METHODS = ["textDocument/hover", "textDocument/definition", "textDocument/implementation", "textDocument/references",
           "textDocument/documentHighlight", "textDocument/rename", "textDocument/signatureHelp", "textDocument/completion",
           "textDocument/codeAction"]
HEAVY = {"textDocument/references", "textDocument/documentHighlight", "textDocument/rename"}
INCLUDE_STMT = re.compile(r"\s*(#\s*)?include\b", re.I)
WORD = re.compile(r"[A-Za-z_$][\w$]*|\d+|[%()=,:'\"&!#.]")


def path_of_uri(uri: str):
    from urllib.parse import unquote

    return unquote(uri[len("file://"):]) if isinstance(uri, str) and uri.startswith("file://") else None


class Prober:
    def __init__(self, srv):
        self.srv = srv
        self.requests = 0
        self.nonnull = 0

    def target_lines(self, uri):
        p = path_of_uri(uri)
        f = self.srv.s.workspace.get(p) if p else None
        return None if f is None else f.contents_split

    def params(self, method, path, line, ch, line2=None, ch2=None):
        p = {"textDocument": {"uri": uri_of(path)}, "position": {"line": line, "character": ch}}
        if method == "textDocument/references":
            p["context"] = {"includeDeclaration": True}
        elif method == "textDocument/rename":
            p["newName"] = "vq_renamed"
        elif method == "textDocument/codeAction":
            p = {"textDocument": {"uri": uri_of(path)}, "context": {"diagnostics": []},
                 "range": {"start": {"line": line, "character": ch},
                           "end": {"line": line if line2 is None else line2, "character": ch if ch2 is None else ch2}}}
        return p

    def check_ranges(self, obj, default_uri, where):
        discs = []
        for uri, rng, kind in shapes.ranges_of(obj, default_uri):
            lines = self.target_lines(uri)
            if lines is None:
                discs.append(Disc(f"range-target-not-indexed:{where}", f"{where}: {kind} points at {uri!r}, which the server does not hold"))
                continue
            prob = shapes.check_range(lines, rng)
            if prob:
                discs.append(Disc(f"range-outside-document:{where}:{prob.split(' ')[0]}", f"{where}: {kind} {rng} in {uri}: {prob}"))
        return discs

    def check_notifications(self, notes, where):
        discs = []
        for o in notes:
            if o.get("method") == "textDocument/publishDiagnostics":
                pr = o.get("params", {})
                for d in pr.get("diagnostics", []):
                    if not shapes.is_diagnostic(d):
                        discs.append(Disc("diagnostic-shape", f"{where}: malformed diagnostic {str(d)[:200]}"))
                discs += self.check_ranges(pr.get("diagnostics", []), pr.get("uri"), "publishDiagnostics")
            elif "id" in o and "method" not in o:
                discs.append(Disc("unexpected-response", f"{where}: response nobody asked for: {str(o)[:200]}"))
        return discs

    def request(self, method, path, line, ch, line2=None, ch2=None):
        """-> (discs, result)"""
        params = self.params(method, path, line, ch, line2, ch2)
        resp, notes = self.srv.request(method, params)
        self.requests += 1
        short = method.split("/")[-1]
        where = f"{short}@{line}:{ch}"
        discs = self.check_notifications(notes, where)
        if "_responses" in resp:
            return discs + [Disc(f"response-count:{short}", f"{where}: {len(resp['_responses'])} responses")], None
        if "error" in resp:
            e = resp["error"]
            tb = (e.get("data") or {}).get("traceback", "") if isinstance(e.get("data"), dict) else ""
            sig = traceback_signature(tb, str(e.get("message")), prefix="ERROR")
            return discs + [Disc(sig, f"{where}: error response {e.get('code')} {str(e.get('message'))[:120]}")], None
        res = resp.get("result")
        if res is not None and res != []:
            self.nonnull += 1
        for prob in shapes.validate(method, res):
            discs.append(Disc(f"shape:{short}:{prob[:40]}", f"{where}: {prob}"))
        rd = self.check_ranges(res, uri_of(path), short)
        if rd and short == "definition":
            # narrow class: the cursor is on the file name of an INCLUDE statement; fortls answers with
            # the line number of the INCLUDE statement, applied to the included file (pinned by
            # test_def_include_file), which need not exist there
            f = self.srv.s.workspace.get(path)
            src = f.contents_split[line] if f is not None and 0 <= line < len(f.contents_split) else ""
            if INCLUDE_STMT.match(src):
                for d in rd:
                    d.sig = "definition-of-include-file:line-of-include-statement-used-in-target"
        discs += rd
        return discs, res


def interesting_positions(lines, dense=False):
    """Identifier starts / middles / ends, punctuation, every line end, one past it, and lines
    past the end of the file."""
    out = []
    n = len(lines)
    for ln, text in enumerate(lines):
        seen = set()
        for m in WORD.finditer(text):
            cols = {m.start(), (m.start() + m.end()) // 2, m.end()} if dense else {m.start(), m.end() - 1 if m.end() - m.start() > 2 else m.end()}
            for c in cols:
                if c not in seen:
                    seen.add(c)
                    out.append((ln, c, "word"))
        out.append((ln, len(text), "eol"))
        out.append((ln, len(text) + 1, "past-eol"))
    out += [(n, 0, "past-eof"), (n + 1, 3, "past-eof"), (max(n - 1, 0), 0, "last-line")]
    return out


def all_positions(lines):
    out = []
    for ln, text in enumerate(lines):
        for c in range(len(text) + 2):
            out.append((ln, c, "sweep"))
    n = len(lines)
    out += [(n, 0, "past-eof"), (n, 5, "past-eof"), (n + 1, 0, "past-eof")]
    return out
