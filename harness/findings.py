"""Signatures, discrepancies and the committed known-findings list.

known_findings.json is committed and never written at run time.  Entries:
  {"status": "known", "property": "C06", "signature": "...", "what": "..."}   suppresses exactly
      that signature (the search continues and a KNOWN-FINDING line is printed);
  {"status": "fixed", "property": "C02", "commit": "<sha>", "signature": "...", "what": "..."}
      suppresses nothing (documentation + regression case).
"""
from __future__ import annotations

import hashlib
import json
import os
import traceback
from dataclasses import dataclass, field
from typing import Any

HERE = os.path.dirname(os.path.dirname(os.path.abspath(__file__)))
KNOWN_PATH = os.path.join(HERE, "known_findings.json")


@dataclass
class Disc:
    """One discrepancy between the code under test and the oracle."""

    sig: str  # stable signature (class label or exception site)
    what: str  # one-line human description
    detail: Any = None  # json-able extra information

    def as_json(self):
        return {"sig": self.sig, "what": self.what, "detail": self.detail}


def sig_hash(sig: str) -> str:
    return hashlib.sha1(sig.encode("utf-8")).hexdigest()[:12]


def exc_signature(exc: BaseException, prefix: str = "EXC") -> str:
    """(exception type, innermost fortls frame: file, function, stripped source line)."""
    tb = traceback.extract_tb(exc.__traceback__)
    site = None
    for fr in tb:
        fn = fr.filename.replace("\\", "/")
        if "/fortls/" in fn:
            site = fr
    if site is None and tb:
        site = tb[-1]
    if site is None:
        return f"{prefix}:{type(exc).__name__}@?"
    fn = site.filename.replace("\\", "/")
    short = fn.split("/fortls/", 1)[-1] if "/fortls/" in fn else os.path.basename(fn)
    return f"{prefix}:{type(exc).__name__}@{short}:{site.name}:{(site.line or '').strip()}"


_TB_FILE = None


def traceback_signature(tb_text: str, err_msg: str = "", prefix: str = "EXC") -> str:
    """Same signature computed from a traceback *string* (as carried by an InternalError
    response's data.traceback)."""
    import re

    frames = re.findall(r'File "([^"]+)", line \d+, in (\S+)\n\s+(.*)', tb_text or "")
    site = None
    for fn, func, line in frames:
        if "/fortls/" in fn.replace("\\", "/"):
            site = (fn, func, line)
    if site is None and frames:
        site = frames[-1]
    last = (tb_text or "").strip().splitlines()[-1] if (tb_text or "").strip() else err_msg
    etype = last.split(":", 1)[0].strip() if last else "Error"
    if site is None:
        return f"{prefix}:{etype}@?"
    fn = site[0].replace("\\", "/")
    short = fn.split("/fortls/", 1)[-1] if "/fortls/" in fn else os.path.basename(fn)
    return f"{prefix}:{etype}@{short}:{site[1]}:{site[2].strip()}"


class Known:
    def __init__(self, path: str = KNOWN_PATH):
        self.entries = []
        if os.path.exists(path):
            with open(path) as f:
                self.entries = json.load(f).get("findings", [])

    def lookup(self, pid: str, sig: str):
        for e in self.entries:
            if e.get("status") == "known" and e.get("property") == pid and e.get("signature") == sig:
                return e
        return None

    def known_for(self, pid: str):
        return [e for e in self.entries if e.get("status") == "known" and e.get("property") == pid]
