"""Helpers shared by the fmodel-based checks (C04-C07, C10, C12-C15): write a rendered program
to disk, start a server on it, describe how the reference scoping bound a name, sample-validate
the generator with gfortran."""
from __future__ import annotations

import os
import shutil

from harness import fmodel
from harness.lsp import Server, pos_params, uri_of
from harness.runner import HarnessError

ARGV = ["--disable_autoupdate", "--incremental_sync", "-n", "1"]


def materialise(rendered, root, clean=True):
    if clean:
        shutil.rmtree(root, ignore_errors=True)
    os.makedirs(root, exist_ok=True)
    for n, text in rendered.files.items():
        with open(os.path.join(root, n), "w", encoding="utf-8", newline="") as fh:
            fh.write(text)


def start(rendered, root, argv=None, open_files=True):
    materialise(rendered, root)
    srv = Server(root=root, argv=ARGV if argv is None else argv)
    diags = {}
    if open_files:
        for n in sorted(rendered.files):
            outs = srv.did_open(os.path.join(root, n))
            for o in outs:
                if o.get("method") == "textDocument/publishDiagnostics":
                    diags[n] = o["params"]["diagnostics"]
    return srv, diags


def decl_table(rendered):
    d = {}
    for o in rendered.occs:
        if o.role == "decl" and o.ent.id not in d:
            d[o.ent.id] = o
    return d


def binding_path(scope, name):
    """How the reference scoping binds `name` seen from `scope`: a short label."""
    n = name.lower()
    s, level = scope, 0
    while s is not None:
        if n in s.declared:
            if level == 0:
                return "local"
            return "host" + ("-shadowing" if False else "")
        for u in s.uses:
            exp = u.module.inner.exported()
            if u.only is None:
                ren = {loc.lower(): rn for loc, rn, _ in (u.renames or [])}
                if n in ren:
                    return "use-rename-list" + ("-reexport" if exp[ren[n]].scope is not u.module.inner else "") + ("" if level == 0 else "@host")
                if n in exp and n not in ren.values():
                    e = exp[n]
                    via = "use"
                    if e.scope is not u.module.inner:
                        via = "use-reexport"
                    return via + ("" if level == 0 else "@host")
            else:
                for loc, rem in u.only:
                    if loc.lower() == n:
                        via = "use-rename" if loc.lower() != rem.name.lower() else "use-only"
                        if rem.scope is not u.module.inner:
                            via += "-reexport"
                        return via + ("" if level == 0 else "@host")
        s = s.parent
        level += 1
    return "unbound"


def _reachable_through_hidden(scope, name, seen=None):
    """Entities a lookup of `name` from `scope` can reach along USE paths when the hiding effect of rename lists
    ('use m, loc => NAME' makes m's NAME inaccessible as NAME) is ignored, restricted to paths that pass such a hidden
    name: {Ent}.  Precedence between paths is deliberately not modelled (fortls searches the merged USE tree before the
    declarations of the modules it passes through)."""
    n = name.lower()
    out = set()

    def from_module(msc, x, hidden, depth):
        # x: spelling of the name inside module msc
        if depth > 12:
            return
        e = msc.declared.get(x)
        if e is not None and not (e.vis == "private" or (e.vis is None and msc.default_private)):
            if hidden:
                out.add(e)
        if not msc.default_private or True:  # re-export (fortls also descends through default-PRIVATE modules: separate finding)
            from_uses(msc, x, hidden, depth + 1)

    def from_uses(sc, x, hidden, depth):
        for u in sc.uses:
            if u.only is None:
                ren = {loc.lower(): rn for loc, rn, _ in (u.renames or [])}
                if x in ren:
                    from_module(u.module.inner, ren[x], hidden, depth)
                # the name itself: legitimately visible unless a rename list hides it
                from_module(u.module.inner, x, hidden or x in ren.values(), depth)
            else:
                exp = u.module.inner.exported()
                for loc, rem in u.only:
                    if loc.lower() == x:
                        spell = next((k for k, v in exp.items() if v is rem), rem.name.lower())
                        from_module(u.module.inner, spell, hidden, depth)

    s = scope
    while s is not None:
        from_uses(s, n, False, 0)
        s = s.parent
    return out


def hidden_by_rename_list(scope, name, ent):
    """True if `ent` is an entity that a rename list without ONLY ('use m, loc => NAME'), in the scope chain of `scope` or
    in a module reached from it, makes inaccessible under NAME, while a lookup that ignores the hiding reaches it."""
    return ent in _reachable_through_hidden(scope, name)


def homonyms(prog, ent, spelling):
    return [e for e in prog.ents if e is not ent and e.name.lower() == spelling.lower()]


_validated = {"n": 0, "bad": 0}


def gfortran_sample(ctx, rendered, every=10):
    """Soundness of the generator: every n-th program must be accepted by gfortran (harness error
    otherwise: the check would be asserting things about invalid programs)."""
    # sampled as a function of the text (not of a counter): the same program is validated again when Hypothesis replays it
    import zlib

    _validated["n"] += 1
    if zlib.crc32(repr(sorted(rendered.files.items())).encode()) % every:
        return
    if shutil.which("gfortran") is None:
        ctx.notes["gfortran"] = "not available: generator soundness not cross-checked in this run"
        return
    err = fmodel.gfortran_check(rendered)
    ctx.extra["programs_validated_with_gfortran"] = ctx.extra.get("programs_validated_with_gfortran", 0) + 1
    if err and gfortran_two_names_quirk(rendered, err):
        ctx.event("gfortran-12-quirk:entity-with-two-local-names-reported-untyped(program-kept)")
        return
    if err:
        try:  # keep the rejected program for diagnosis (harness error, exit 2)
            import hashlib, json as _json

            d = os.path.join(os.environ.get("VERIF_OUT", "/dev/shm"), "rejected")
            os.makedirs(d, exist_ok=True)
            with open(os.path.join(d, hashlib.sha1(repr(sorted(rendered.files.items())).encode()).hexdigest()[:12] + ".json"), "w") as fh:
                _json.dump({"error": err[:3000], "files": rendered.files}, fh)
        except OSError:
            pass
        raise HarnessError("generator produced a program gfortran rejects:\n" + err[:1500] + "\n" +
                           "\n".join(f"-- {k}\n{v}" for k, v in rendered.files.items())[:6000])


def gfortran_two_names_quirk(rendered, err):
    """gfortran 12 mishandles an entity that is use-associated under two local names in one scope (legal: F2018 14.2.2,
    e.g. 'use b, only: rho => t' + 'use a' with b re-exporting a's t): depending on the statement that uses the entity it
    reports "Symbol 't' has no IMPLICIT type", "has not been previously defined", "Derived type 't' is being used before it
    is defined", "Function 'f' has no IMPLICIT type" or just "Syntax error in CALL statement" (all reproduced with
    hand-written minimal programs), and whatever follows is a consequence.  True if the *first* error names such an entity
    in its message or in the source line it quotes."""
    import re

    prog = getattr(rendered, "prog", None)
    names = {n.lower() for n in (prog.stats.get("double_name_set") or ())} if prog is not None else set()
    if not names:
        return False
    # gfortran prints:  file:line:col: / blank / "  97 |  source line" / "     |   1" / "Error: message"
    m = re.search(r"^\s*\d+ \|(.*)\n[^\n]*\n(?:Fatal )?Error: (.*)$", err, re.M)
    if not m:
        return False
    words = {w.lower() for w in re.findall(r"[A-Za-z_]\w*", m.group(1) + " " + m.group(2))}
    return bool(words & names)


def reachable_ignoring_accessibility(module_scope, ent, seen=None):
    """Is `ent` declared in a module reachable from module_scope by following USE statements while
    ignoring every module's default accessibility (what a naive tree walk does)?"""
    seen = seen or set()
    if id(module_scope) in seen:
        return False
    seen.add(id(module_scope))
    if ent.scope is module_scope:
        return True
    return any(reachable_ignoring_accessibility(u.module.inner, ent, seen) for u in module_scope.uses)


def leak_through_private_module(scope, ent, name=None):
    """True if `ent` is NOT accessible from `scope` by the reference rules but would be found by a walk
    that descends through a default-PRIVATE intermediate module (known fortls behaviour).  With `name`: the
    question is asked for that spelling - a module may export the entity under an alias only ('use a, only: y => x')
    while a default-PRIVATE module on another of its USE paths leaks it under its own name."""
    s = scope
    while s is not None:
        for u in s.uses:
            m = u.module.inner
            if ent.scope is not m and reachable_ignoring_accessibility(m, ent):
                if name is not None:
                    exported = m.exported().get(name.lower()) is ent
                else:
                    exported = any(e is ent for e in m.exported().values())
                if not exported:
                    return True
        s = s.parent
    return False
