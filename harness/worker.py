"""Isolated executor: runs a function of a check module in a child process, one call per
message, so that the parent (which owns Hypothesis) can bound the *CPU time* of a call and
survive hangs, recursion blow-ups or crashes of the code under test.

    w = Worker("checks.c03:execute")
    status, value, cpu = w.call(args, cpu_limit=10.0)
        status: "ok" (value = function result) | "timeout" (CPU limit exceeded; child killed)
                | "died" (child exited; value = exit code)
"""
from __future__ import annotations

import importlib
import os
import pickle
import struct
import subprocess
import sys
import time

HERE = os.path.dirname(os.path.dirname(os.path.abspath(__file__)))


def _cpu_of(pid: int) -> float:
    try:
        with open(f"/proc/{pid}/stat") as f:
            parts = f.read().rsplit(")", 1)[1].split()
        return (int(parts[11]) + int(parts[12])) / os.sysconf("SC_CLK_TCK")
    except Exception:
        return 0.0


class Worker:
    def __init__(self, target: str, env=None):
        self.target = target
        self.env = env
        self.p = None
        self.restarts = 0

    def _start(self):
        env = dict(os.environ)
        if self.env:
            env.update(self.env)
        self.p = subprocess.Popen([sys.executable, "-m", "harness.worker", self.target], cwd=HERE, env=env,
                                  stdin=subprocess.PIPE, stdout=subprocess.PIPE, stderr=subprocess.DEVNULL)

    def call(self, args, cpu_limit=10.0, wall_limit=None):
        if self.p is None or self.p.poll() is not None:
            self._start()
        data = pickle.dumps(args)
        try:
            self.p.stdin.write(struct.pack("<I", len(data)) + data)
            self.p.stdin.flush()
        except BrokenPipeError:
            self.close()
            return "died", None, 0.0
        cpu0 = _cpu_of(self.p.pid)
        t0 = time.time()
        os.set_blocking(self.p.stdout.fileno(), False)
        buf = b""
        need = None
        while True:
            try:
                chunk = self.p.stdout.read(1 << 16)
            except BlockingIOError:
                chunk = None
            if chunk:
                buf += chunk
                if need is None and len(buf) >= 4:
                    need = struct.unpack("<I", buf[:4])[0]
                if need is not None and len(buf) >= 4 + need:
                    cpu = _cpu_of(self.p.pid) - cpu0
                    return "ok", pickle.loads(buf[4 : 4 + need]), cpu
                continue
            if chunk == b"" or self.p.poll() is not None:
                rc = self.p.poll()
                self.close()
                return "died", rc, 0.0
            cpu = _cpu_of(self.p.pid) - cpu0
            if cpu > cpu_limit or (wall_limit is not None and time.time() - t0 > wall_limit and cpu > cpu_limit / 2):
                self.close()
                self.restarts += 1
                return "timeout", None, cpu
            time.sleep(0.0005 if time.time() - t0 < 0.05 else 0.01)

    def close(self):
        if self.p is not None:
            try:
                self.p.kill()
                self.p.wait()
            except Exception:
                pass
            self.p = None


def _serve(target: str):
    sys.path.insert(0, HERE)
    mod, fn = target.split(":")
    f = getattr(importlib.import_module(mod), fn)
    inp, out = sys.stdin.buffer, sys.stdout.buffer
    sys.stdout = sys.stderr  # nothing the tested code prints may corrupt the channel
    while True:
        head = inp.read(4)
        if len(head) < 4:
            return
        n = struct.unpack("<I", head)[0]
        args = pickle.loads(inp.read(n))
        try:
            res = f(*args)
        except BaseException as e:  # the target is expected to catch; this is a harness error
            import traceback

            res = {"harness_error": f"{type(e).__name__}: {e}\n{traceback.format_exc()}"}
        data = pickle.dumps(res)
        out.write(struct.pack("<I", len(data)) + data)
        out.flush()


if __name__ == "__main__":
    _serve(sys.argv[1])
