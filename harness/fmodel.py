"""fmodel — a Fortran program model with its own reference implementation of scoping.

A Hypothesis-driven builder draws an abstract multi-file workspace (modules, programs, derived
types with EXTENDS / components / type-bound procedures, generic interfaces, procedures with
dummies, locals and internal procedures, executable bodies with nested constructs, USE with
ONLY / renames / PRIVATE decoys / re-export).  Every name placed in a statement is chosen from
the set the *reference scoping rules* (R1-R8, DESIGN.md §2.3) say is accessible there, so each
use site has exactly one binding by construction.

The program is a list of abstract statements (token lists whose tokens are text or entity
references); `render()` turns it into text under a separately drawn Layout and produces the
occurrence table (file, line, col, spelling, entity, role) — the ground truth for definition,
references, rename, completion, outline and layout-invariance checks.
"""
from __future__ import annotations

import functools
import os
import re
import subprocess
import tempfile
from dataclasses import dataclass, field

from hypothesis import strategies as st

T_INT, T_REAL = "integer", "real"

FORTRAN_WORDS = set("""
program module submodule subroutine function end contains use only implicit none integer real logical character complex
type class extends abstract interface procedure generic public private protected parameter intent in out inout optional
pointer target allocatable dimension save external intrinsic do while if then else elseif endif enddo select case default
where elsewhere forall associate block critical call return stop print write read open close format result recursive pure
elemental impure data common equivalence namelist include import enum enumerator bind value volatile asynchronous contiguous
deferred nopass pass non_overridable final sequence kind len double precision go to goto continue cycle exit error sync all
images memory lock unlock event post wait allocate deallocate nullify is rank size true false and or not eq ne lt le gt ge eqv
neqv null self this
""".split())


@functools.lru_cache(maxsize=None)
def reserved_names():
    names = set(FORTRAN_WORDS)
    try:
        from fortls.parsers.internal.intrinsics import get_intrinsic_keywords, load_intrinsics

        stmts, kw, funs, mods = load_intrinsics()
        names |= {f.name.lower() for f in funs}
        for c in (0, 1, 2, 3):
            names |= {k.name.lower() for k in get_intrinsic_keywords(stmts, kw, c)}
        for m in mods:
            names.add(m.name.lower())
            names |= {c.name.lower() for c in m.get_children()}
    except Exception:
        pass
    return names


STEMS = ["alp", "bet", "gam", "del", "kap", "lam", "muo", "nuo", "omi", "rho", "sig", "tau", "ups", "phy", "chy", "psy", "ome", "zet",
         "eta", "iot", "vex", "wix", "yon", "qua", "jor", "hux", "atrue", "falsey"]


# ------------------------------------------------------------------ entities and scopes
@dataclass(eq=False)
class Ent:
    id: int
    name: str
    kind: str  # module program subroutine function type variable component binding interface dummy local alias assoc construct
    scope: "Scope" = None  # scope in which it is declared
    vis: str = None  # 'public' | 'private' | None (module default)
    typ: object = None  # T_INT | T_REAL | ("type", Ent)
    decl: tuple = None  # (file, line, col) filled in by render()
    parent_type: "Ent" = None  # for types: EXTENDS
    members: list = field(default_factory=list)  # types: components + bindings (own)
    dummies: list = field(default_factory=list)  # procedures
    result: "Ent" = None
    target: "Ent" = None  # bindings / aliases / assoc names: what they stand for
    inner: "Scope" = None  # scope opened by this entity
    const: bool = False
    writable: bool = True
    attrs: dict = field(default_factory=dict)

    def __repr__(self):
        return f"<{self.kind} {self.name}#{self.id}>"

    def all_members(self):
        """own members + inherited ones (R5)"""
        out = {m.name.lower(): m for m in (self.parent_type.all_members().values() if self.parent_type else [])}
        out.update({m.name.lower(): m for m in self.members})
        return out


@dataclass(eq=False)
class UseStmt:
    module: Ent
    only: list = None  # None = whole module; else list of (local_name, remote Ent)
    renames: list = None  # whole module with a rename list: [(local_name, exported name (lower), remote Ent)]


class Scope:
    def __init__(self, kind, ent=None, parent=None):
        self.kind, self.ent, self.parent = kind, ent, parent
        self.declared = {}  # lower name -> Ent
        self.uses = []
        self.default_private = False
        self.children = []
        if parent is not None:
            parent.children.append(self)

    # R4: what a module exports
    def exported(self):
        out = {}
        if not self.default_private:
            for n, e in self.use_visible().items():
                out[n] = e
        for n, e in self.declared.items():
            if e.vis == "private" or (e.vis is None and self.default_private):
                continue
            out[n] = e
        return out

    # R3
    def use_visible(self):
        out = {}
        for u in self.uses:
            exp = u.module.inner.exported()
            if u.only is None:
                ren = {rn: loc.lower() for loc, rn, _ in (u.renames or [])}
                for n, e in exp.items():
                    # 'use m, loc => n': the entity is accessible as loc, not as n
                    out.setdefault(ren.get(n, n), e)
            else:
                for loc, rem in u.only:
                    out[loc.lower()] = rem
        return out

    # R1, R2
    def lookup(self, name):
        n = name.lower()
        if n in self.declared:
            return self.declared[n]
        uv = self.use_visible()
        if n in uv:
            return uv[n]
        return self.parent.lookup(name) if self.parent is not None else None

    def accessible(self):
        acc = dict(self.parent.accessible()) if self.parent is not None else {}
        acc.update(self.use_visible())
        acc.update(self.declared)
        return acc

    def unit(self):
        s = self
        while s.parent is not None:
            s = s.parent
        return s


@dataclass
class Ref:
    ent: Ent
    role: str  # decl use call typeref extends only alias remote member bindtarget modproc endname usemod
    text: str = None

    def spelling(self):
        return self.text if self.text is not None else self.ent.name


@dataclass
class Stmt:
    toks: list
    kind: str = "exec"
    depth: int = 0
    opens: object = None  # Ent or construct id
    closes: object = None
    simple: bool = False  # may be joined with ';' / split freely
    label: int = None  # numeric statement label (fixed form DO termination)
    comment: str = None  # trailing ordinary comment text
    do_label: int = None
    scope: object = None  # the Scope whose names this statement sees
    seltype: tuple = ()  # enclosing SELECT TYPE constructs as (selector Ent, [SELECT TYPE stmt, type guard stmts]): inside, the selector is a construct entity


@dataclass
class FileModel:
    name: str
    stmts: list = field(default_factory=list)
    units: list = field(default_factory=list)


@dataclass
class Program:
    files: list
    ents: list
    modules: list
    top_scopes: list
    stats: dict = field(default_factory=dict)

    def file(self, name):
        return [f for f in self.files if f.name == name][0]


# ------------------------------------------------------------------ builder
class Builder:
    def __init__(self, draw, opts=None):
        self.draw = draw
        self.opts = dict(nfiles=(1, 3), rich=True, constructs=True, decoys=True, types=True, internal=True, interfaces=True)
        self.opts.update(opts or {})
        self.ents = []
        self.used_names = set()  # every spelling used anywhere (lower)
        self.global_names = set()  # names of program units
        self.files = []
        self.modules = []
        self.top_scopes = []
        self.cur = None  # current FileModel
        self.stats = {"homonyms": 0, "decoys": 0, "renames": 0, "only": 0, "reexport": 0, "inherited": 0, "shadow": 0, "constructs": 0,
                      "member_chain": 0, "same_line_dups": 0, "quote_mix": 0, "unnamed_interfaces": 0, "io_end_file": 0, "rename_lists": 0, "double_names": 0, "more_constructs": 0, "external_procs": 0, "enums": 0, "interface_bodies": 0, "subscripted": 0, "assoc_objects": 0, "if_call": 0}
        self.construct_id = 0
        self.loopvars = []
        self.scope_stack = []

    # ---- drawing helpers
    def d_int(self, a, b):
        return self.draw(st.integers(a, b))

    def d_bool(self, p_true=2):
        """True with probability 1/p_true"""
        return self.draw(st.integers(0, p_true - 1)) == 0

    def d_pick(self, seq):
        seq = list(seq)
        return seq[self.draw(st.integers(0, len(seq) - 1))]

    def new_ent(self, name, kind, scope, **kw):
        e = Ent(len(self.ents), name, kind, scope, **kw)
        self.ents.append(e)
        return e

    def fresh(self, avoid=(), prefix=""):
        res = reserved_names()
        for _ in range(200):
            n = prefix + self.d_pick(STEMS) + (str(self.d_int(0, 9)) if self.d_bool(2) else "") + ("_" + self.d_pick(STEMS) if self.d_bool(4) else "")
            if n.lower() in res or n.lower() in self.used_names or n.lower() in avoid:
                continue
            self.used_names.add(n.lower())
            return n
        n = f"{prefix}zq{len(self.used_names)}x"
        self.used_names.add(n)
        return n

    def name_for(self, scope, allow_homonym=True, prefix=""):
        """A name that may be declared in `scope`: not declared there, not use-associated there (R1).
        With some probability re-use a spelling living in another scope (homonym / shadowing)."""
        taken = set(scope.declared) | set(scope.use_visible())
        if scope.parent is None:
            taken |= self.global_names
        if allow_homonym and self.opts["decoys"] and self.d_bool(4):
            cands = sorted({e.name for e in self.ents if e.kind in ("variable", "local", "dummy", "component")
                            and e.name.lower() not in taken and e.name.lower() not in self.global_names and not e.name.lower().startswith(("m_", "p_"))})
            # the name must also not collide with the enclosing unit's own name or the procedure's own name
            s, forbid = scope, set()
            while s is not None:
                if s.ent is not None:
                    forbid.add(s.ent.name.lower())
                s = s.parent
            cands = [c for c in cands if c.lower() not in forbid]
            if scope.kind == "block":
                # gfortran 12 rejects a BLOCK-local variable that has the name of an accessible procedure when it is used as an
                # actual argument ("Invalid procedure argument"; legal, the outer entity is merely hidden): not generated
                acc = scope.accessible()
                cands = [c for c in cands if not (c.lower() in acc and acc[c.lower()].kind in ("function", "subroutine", "interface", "proto"))]
            if cands:
                self.stats["homonyms"] += 1
                return self.d_pick(cands)
        return self.fresh(avoid=taken, prefix=prefix)

    # ---- statement emission
    def emit(self, *toks, kind="exec", depth=0, **kw):
        s = Stmt(list(toks), kind=kind, depth=depth, **kw)
        if s.scope is None and self.scope_stack:
            s.scope = self.scope_stack[-1]
        s.seltype = tuple(getattr(self, "seltype_stack", ()))
        self.cur.stmts.append(s)
        return s

    def push(self, sc):
        self.scope_stack.append(sc)

    def pop(self):
        self.scope_stack.pop()

    # ---- program structure
    def build(self):
        nf = self.d_int(*self.opts["nfiles"])
        nmods = max(1, nf - 1) if nf > 1 else self.d_int(1, 2)
        mod_i = 0
        for fi in range(nf):
            self.cur = FileModel(f"f{fi}.f90")
            self.files.append(self.cur)
            last = fi == nf - 1
            if not last or nf == 1:
                for _ in range(1 if nf > 1 else nmods):
                    self.gen_module(mod_i)
                    mod_i += 1
                    if self.d_bool(3) and nf > 1:
                        self.gen_module(mod_i)
                        mod_i += 1
            if self.opts.get("external_procs", True) and self.d_bool(3):
                self.gen_external()
            if last:
                self.gen_program()
                if self.opts.get("external_procs", True) and self.d_bool(5):
                    self.gen_external()
        return Program(self.files, self.ents, self.modules, self.top_scopes, self.stats)

    def gen_uses(self, scope, depth):
        """USE statements for `scope` (a module / program / procedure) choosing among earlier modules."""
        if not self.modules:
            return
        k = self.d_int(0, min(3, len(self.modules)))
        mods = []
        pool = list(self.modules)
        for _ in range(k):
            m = self.d_pick(pool)
            pool.remove(m)
            mods.append(m)
        # a module may not USE itself; procedures inside module M do not USE M
        unit_ent = scope.unit().ent
        mods = [m for m in mods if m is not unit_ent]
        host_names = set()  # names of enclosing scoping units / their declared entities are fine to shadow by USE? no: keep it valid & simple
        s = scope.parent
        for m in mods:
            exp = m.inner.exported()
            if not exp:
                continue
            vis = scope.use_visible()
            forbid = {scope.ent.name.lower()} if scope.ent is not None else set()
            s2 = scope
            while s2 is not None:
                if s2.ent is not None:
                    forbid.add(s2.ent.name.lower())
                s2 = s2.parent
            forbid |= set(scope.declared)
            # (also: never import one entity under two different names into one scope - legal, but
            # gfortran 12 then resolves the plain name to a host entity of the same spelling)
            vis_by_ent = {}
            for n2, e2 in vis.items():
                vis_by_ent.setdefault(id(e2), set()).add(n2)
            # ... so a second name for an entity is allowed only where no host scope knows either spelling
            host_names = set(scope.parent.accessible()) if scope.parent is not None else set()
            allow_double = self.opts.get("double_names", True) and self.d_bool(2)

            def name_ok(e, n):
                have = vis_by_ent.get(id(e), {n})
                if have == {n}:
                    return True
                if allow_double and not ((have | {n}) & host_names):
                    # remembered: gfortran 12 sometimes loses one of the two names ("has no IMPLICIT type")
                    self.stats.setdefault("double_name_set", set()).update(have | {n})
                    return True
                return False

            whole_ok = all((n not in vis or vis[n] is e) and n not in forbid and name_ok(e, n) for n, e in exp.items())
            if whole_ok and any(vis_by_ent.get(id(e), {n}) != {n} for n, e in exp.items()):
                self.stats["double_names"] += 1
            if whole_ok and self.d_bool(2):
                cands = [n for n, e in sorted(exp.items()) if id(e) not in vis_by_ent] if self.opts.get("rename_lists", True) else []
                if cands and self.d_bool(3):
                    # rename list without ONLY: the whole module, one entity under another local name
                    n = self.d_pick(cands)
                    rem = exp[n]
                    loc = self.fresh(avoid=set(vis) | forbid | set(exp))
                    scope.uses.append(UseStmt(m, None, [(loc, n, rem)]))
                    self.emit("use ", Ref(m, "usemod"), ", ", Ref(rem, "alias", loc), " => ", Ref(rem, "remote", n if rem.name.lower() != n else rem.name),
                              kind="use", depth=depth)
                    self.stats["renames"] += 1
                    self.stats["rename_lists"] += 1
                else:
                    scope.uses.append(UseStmt(m, None))
                    self.emit("use ", Ref(m, "usemod"), kind="use", depth=depth)
                if any(e.scope is not m.inner for e in exp.values()):
                    self.stats["reexport"] += 1
                continue
            names = sorted(exp)
            chosen = []
            for _ in range(self.d_int(1, min(3, len(names)))):
                n = self.d_pick(names)
                if n not in chosen:
                    chosen.append(n)
            only = []
            toks = ["use ", Ref(m, "usemod"), ", only: "]
            first = True
            for n in chosen:
                rem = exp[n]
                if self.d_bool(3):
                    loc = self.fresh(avoid=set(vis) | forbid)
                else:
                    loc = rem.name if rem.name.lower() == n else n
                l = loc.lower()
                if l in forbid or (l in vis and vis[l] is not rem) or any(l == o[0].lower() for o in only):
                    continue
                if not name_ok(rem, l) or any(o[1] is rem for o in only):
                    continue
                if vis_by_ent.get(id(rem), {l}) != {l}:
                    self.stats["double_names"] += 1
                only.append((loc, rem))
                if not first:
                    toks.append(", ")
                first = False
                if l != n:
                    self.stats["renames"] += 1
                    toks += [Ref(rem, "alias", loc), " => ", Ref(rem, "remote", n if rem.name.lower() != n else rem.name)]
                else:
                    toks.append(Ref(rem, "only", rem.name if rem.name.lower() == n else n))
            if not only:
                continue
            self.stats["only"] += 1
            scope.uses.append(UseStmt(m, only))
            self.emit(*toks, kind="use", depth=depth)
            # decoy accounting: a private homonym lives in m
            for loc, rem in only:
                pass

    def gen_module(self, idx):
        name = f"m_{self.fresh()}"
        self.global_names.add(name.lower())
        ent = self.new_ent(name, "module", None)
        sc = Scope("module", ent)
        ent.inner = sc
        self.top_scopes.append(sc)
        self.cur.units.append(ent)
        self.push(sc)
        self.emit("module ", Ref(ent, "decl"), kind="open-unit", opens=ent)
        self.gen_uses(sc, 1)
        self.emit("implicit none", kind="implicit", depth=1)
        if self.d_bool(3):
            sc.default_private = True
            self.emit("private", kind="vis", depth=1)
        self.gen_spec(sc, 1, module=True)
        procs = self.plan_procs(sc, 1)
        self.emit_pending_interface(sc, 1)
        self.emit_unnamed_interfaces(sc, procs, 1)
        for e in list(sc.declared.values()):
            if e.kind in ("subroutine", "function", "interface") and e.vis is not None:
                self.emit(f"{e.vis} :: ", Ref(e, "visref"), kind="vis", depth=1)
        if procs:
            self.emit("contains", kind="contains", depth=0)
            for p in procs:
                self.gen_proc_body(p, 1)
        self.emit("end module ", Ref(ent, "endname"), kind="close-unit", closes=ent)
        self.pop()
        self.modules.append(ent)

    def gen_external(self):
        """An external procedure: a program unit of its own (no host), never referenced by the other units."""
        kind = "function" if self.d_bool(3) else "subroutine"
        name = f"x_{self.fresh()}"
        self.global_names.add(name.lower())
        p = self.new_ent(name, kind, None)
        psc = Scope(kind, p, None)
        p.inner = psc
        self.top_scopes.append(psc)
        self.cur.units.append(p)
        for _ in range(self.d_int(0, 2)):
            dn = self.name_for(psc, allow_homonym=self.d_bool(2))
            if dn.lower() == name.lower() or dn.lower() in psc.declared:
                continue
            d = self.new_ent(dn, "dummy", psc, typ=self.d_pick([T_INT, T_REAL]), writable=False)
            psc.declared[dn.lower()] = d
            p.dummies.append(d)
        if kind == "function":
            p.typ = self.d_pick([T_INT, T_REAL])
        p.attrs["external"] = True
        self.stats["external_procs"] += 1
        self.gen_proc_body(p, 0, allow_internal=self.d_bool(2), unit=True)

    def gen_program(self):
        name = f"p_{self.fresh()}"
        self.global_names.add(name.lower())
        ent = self.new_ent(name, "program", None)
        sc = Scope("program", ent)
        ent.inner = sc
        self.top_scopes.append(sc)
        self.cur.units.append(ent)
        self.push(sc)
        self.emit("program ", Ref(ent, "decl"), kind="open-unit", opens=ent)
        self.gen_uses(sc, 1)
        self.emit("implicit none", kind="implicit", depth=1)
        self.gen_spec(sc, 1, module=False)
        self.gen_loopvars(sc, 1)
        procs = self.plan_procs(sc, 1) if self.opts["internal"] else []
        self.gen_body(sc, 1, procs_callable=procs)
        if procs:
            self.emit("contains", kind="contains", depth=0)
            for p in procs:
                self.gen_proc_body(p, 1, allow_internal=False)
        self.emit("end program ", Ref(ent, "endname"), kind="close-unit", closes=ent)
        self.pop()

    # ---- specification part
    def vis_attr(self, sc, module):
        if not module:
            return None
        k = self.d_int(0, 5)
        return "public" if k == 0 else ("private" if k == 1 else None)

    def accessible_types(self, sc):
        return [e for e in sc.accessible().values() if e.kind == "type"]

    def gen_spec(self, sc, depth, module):
        # derived types
        if self.opts["types"]:
            for _ in range(self.d_int(0, 2)):
                self.gen_type(sc, depth, module)
        # variables
        for _ in range(self.d_int(1, 4)):
            self.gen_var(sc, depth, module)
        if module and self.opts.get("enums", True) and self.d_bool(4):
            # an ENUM block (END ENUM must close it and nothing else); the enumerators are plain text, never referenced:
            # fortls does not index enumerators at all (recorded as a C05 finding by a dedicated program)
            self.emit("enum, bind(c)", kind="open-enum", depth=depth)
            names = [self.fresh(prefix="e_") for _ in range(self.d_int(1, 3))]
            self.emit("enumerator :: " + ", ".join(n + (" = 4" if i == 0 and self.d_bool(2) else "") for i, n in enumerate(names)), kind="decl", depth=depth + 1)
            self.emit("end enum", kind="close-enum", depth=depth)
            self.stats["enums"] += 1

    def gen_type(self, sc, depth, module):
        name = self.fresh(avoid=set(sc.declared) | set(sc.use_visible()), prefix="t_")
        vis = self.vis_attr(sc, module)
        parents = [t for t in self.accessible_types(sc) if t.attrs.get("extensible", True)]
        parent = self.d_pick(parents) if parents and self.d_bool(2) else None
        ent = self.new_ent(name, "type", sc, vis=vis, parent_type=parent)
        sc.declared[name.lower()] = ent
        tsc = Scope("type", ent, sc)
        sc.children.remove(tsc)  # a derived type is not a host scope for name lookup of its neighbours
        tsc.parent = sc
        ent.inner = tsc
        toks = ["type"]
        if vis:
            toks.append(f", {vis}")
        if parent is not None:
            toks += [", extends(", Ref(parent, "extends", self.spelling_in(sc, parent)), ")"]
        toks += [" :: ", Ref(ent, "decl")]
        self.emit(*toks, kind="open-type", depth=depth, opens=ent)
        inherited = set(parent.all_members()) if parent is not None else set()
        for _ in range(self.d_int(1, 3)):
            cname = self.fresh(avoid=inherited | {m.name.lower() for m in ent.members}) if not self.d_bool(3) else None
            if cname is None:
                cands = [e.name for e in self.ents if e.kind in ("component", "variable", "local") and e.name.lower() not in inherited
                         and e.name.lower() not in {m.name.lower() for m in ent.members}]
                cname = self.d_pick(sorted(set(cands))) if cands else self.fresh(avoid=inherited)
                self.stats["homonyms"] += 1
            others = [t for t in self.accessible_types(sc) if t is not ent]
            if others and self.d_bool(3):
                ct = self.d_pick(others)
                comp = self.new_ent(cname, "component", tsc, typ=("type", ct))
                ent.members.append(comp)
                if self.d_bool(2):
                    comp.attrs["dims"] = True
                self.emit("type(", Ref(ct, "typeref", self.spelling_in(sc, ct)), ") :: ", Ref(comp, "decl"), *(["(3)"] if comp.attrs.get("dims") else []),
                          kind="decl", depth=depth + 1)
            else:
                t = self.d_pick([T_INT, T_REAL])
                comp = self.new_ent(cname, "component", tsc, typ=t)
                ent.members.append(comp)
                self.emit(f"{t} :: ", Ref(comp, "decl"), kind="decl", depth=depth + 1)
        ent.attrs["bind_plan"] = self.d_int(0, 2) if module else 0
        ent.attrs["depth"] = depth
        self.pending_types = getattr(self, "pending_types", [])
        if ent.attrs["bind_plan"]:
            # bindings are emitted now; their target procedures are created by plan_procs
            self.emit("contains", kind="type-contains", depth=depth)
            for _ in range(ent.attrs["bind_plan"]):
                pname = self.fresh(avoid=set(sc.declared) | set(sc.use_visible()))
                proc = self.new_ent(pname, "subroutine", sc, vis=None)
                sc.declared[pname.lower()] = proc
                proc.attrs["bound_to"] = ent
                nopass = self.d_bool(3)
                proc.attrs["nopass"] = nopass
                if self.d_bool(2):
                    bname = self.fresh(avoid=set(ent.all_members()))
                    b = self.new_ent(bname, "binding", tsc, target=proc)
                    ent.members.append(b)
                    self.emit("procedure" + (", nopass" if nopass else "") + " :: ", Ref(b, "decl"), " => ", Ref(proc, "bindtarget"),
                              kind="decl", depth=depth + 1)
                else:
                    b = self.new_ent(pname, "binding", tsc, target=proc)
                    b.attrs["same_name"] = True
                    ent.members.append(b)
                    self.emit("procedure" + (", nopass" if nopass else "") + " :: ", Ref(b, "decl"), kind="decl", depth=depth + 1)
                    b.attrs["decl_via"] = proc
                    proc.attrs["same_name_binding"] = b
                self.pending_types.append(proc)
        self.emit("end type ", Ref(ent, "endname"), kind="close-type", depth=depth, closes=ent)
        return ent

    def spelling_in(self, sc, ent):
        """The spelling under which `ent` is accessible in sc (aliases!)."""
        for n, e in sc.accessible().items():
            if e is ent:
                # prefer the entity's own name when it works
                if ent.name.lower() == n:
                    return ent.name
        for n, e in sc.accessible().items():
            if e is ent:
                return n
        return ent.name

    def gen_var(self, sc, depth, module, local=False):
        name = self.name_for(sc)
        vis = self.vis_attr(sc, module)
        types = self.accessible_types(sc)
        kind = "local" if local else "variable"
        if types and self.d_bool(3):
            t = self.d_pick(types)
            ent = self.new_ent(name, kind, sc, vis=vis, typ=("type", t))
            sc.declared[name.lower()] = ent
            if self.d_bool(2):
                ent.attrs["dims"] = True  # an array of that type: every reference carries a subscript
            self.emit("type(", Ref(t, "typeref", self.spelling_in(sc, t)), ")" + (f", {vis}" if vis else "") + " :: ", Ref(ent, "decl"),
                      *(["(3)"] if ent.attrs.get("dims") else []), kind="decl", depth=depth, simple=True)
        else:
            t = self.d_pick([T_INT, T_INT, T_REAL])
            const = self.d_bool(5)
            ent = self.new_ent(name, kind, sc, vis=vis, typ=t, const=const, writable=not const)
            sc.declared[name.lower()] = ent
            toks = [t + (", parameter" if const else "") + (f", {vis}" if vis else "") + " :: ", Ref(ent, "decl")]
            if const:
                toks.append(" = 3" if t == T_INT else " = 1.5")
            self.emit(*toks, kind="decl", depth=depth, simple=True)
        return ent

    def gen_loopvars(self, sc, depth):
        """Dedicated DO variables: declared in the procedure itself and never assigned anywhere."""
        if not self.opts["constructs"] or not self.d_bool(2):
            return
        sc.loopvars = []
        toks = ["integer :: "]
        for i in range(self.d_int(1, 3)):
            n = self.name_for(sc, allow_homonym=False)
            e = self.new_ent(n, "local", sc, typ=T_INT, writable=False)
            e.attrs["loopvar"] = True
            sc.declared[n.lower()] = e
            sc.loopvars.append(e)
            if i:
                toks.append(", ")
            toks.append(Ref(e, "decl"))
        self.emit(*toks, kind="decl", depth=depth)
        if self.d_bool(2):
            # a dedicated array for WHERE statements and constructs
            n = self.name_for(sc, allow_homonym=False)
            a = self.new_ent(n, "local", sc, typ="real-array", writable=False)
            a.attrs["array"] = True
            sc.declared[n.lower()] = a
            sc.arrays = [a]
            self.emit("real :: ", Ref(a, "decl"), "(3)", kind="decl", depth=depth)

    def free_array(self, sc):
        s = sc
        while s is not None and s.kind not in ("subroutine", "function", "program"):
            s = s.parent
        if s is None or not getattr(s, "arrays", None):
            return None
        a = s.arrays[0]
        return a if sc.lookup(a.name) is a else None

    def free_loopvar(self, sc):
        s = sc
        while s is not None and s.kind not in ("subroutine", "function", "program"):
            s = s.parent
        if s is None:
            return None
        for e in getattr(s, "loopvars", []):
            if e not in self.loopvars and sc.lookup(e.name) is e:
                return e
        return None

    # ---- procedures
    def plan_procs(self, sc, depth):
        """Create procedure entities (so that bodies can call earlier ones); bodies come later."""
        procs = list(getattr(self, "pending_types", []))
        procs = [p for p in procs if p.scope is sc]
        self.pending_types = [p for p in getattr(self, "pending_types", []) if p.scope is not sc]
        for _ in range(self.d_int(0 if procs else 1, 2)):
            kind = "function" if self.d_bool(3) else "subroutine"
            name = self.name_for(sc, allow_homonym=False)
            vis = self.vis_attr(sc, sc.kind == "module")
            p = self.new_ent(name, kind, sc, vis=vis)
            sc.declared[name.lower()] = p
            procs.append(p)
        # signatures
        for p in procs:
            psc = Scope(p.kind, p, sc)
            p.inner = psc
            bound = p.attrs.get("bound_to")
            if bound is not None and not p.attrs.get("nopass"):
                dn = self.fresh(avoid=set(sc.accessible()), prefix="s")
                d = self.new_ent(dn, "dummy", psc, typ=("type", bound))
                d.attrs["class"] = True
                psc.declared[dn.lower()] = d
                p.dummies.append(d)
            for _ in range(self.d_int(0, 2)):
                dn = self.name_for(psc, allow_homonym=self.d_bool(2))
                if dn.lower() == p.name.lower():
                    continue
                d = self.new_ent(dn, "dummy", psc, typ=self.d_pick([T_INT, T_REAL]), writable=False)
                psc.declared[dn.lower()] = d
                p.dummies.append(d)
            if p.kind == "function":
                p.typ = self.d_pick([T_INT, T_REAL])
                if self.d_bool(2):
                    rn = self.fresh(avoid=set(psc.declared) | set(sc.accessible()))
                    r = self.new_ent(rn, "local", psc, typ=p.typ)
                    r.attrs["result"] = True
                    psc.declared[rn.lower()] = r
                    p.result = r
        if self.opts["interfaces"] and sc.kind == "module":
            subs_i = [p for p in procs if p.kind == "subroutine" and not p.attrs.get("bound_to") and len(p.dummies) == 1 and p.dummies[0].typ == T_INT]
            subs_r = [p for p in procs if p.kind == "subroutine" and not p.attrs.get("bound_to") and len(p.dummies) == 1 and p.dummies[0].typ == T_REAL]
            if (subs_i or subs_r) and self.d_bool(2):
                members = subs_i[:1] + subs_r[:1]
                gname = self.name_for(sc, allow_homonym=False, prefix="g_")
                g = self.new_ent(gname, "interface", sc, vis=self.vis_attr(sc, True))
                g.members = members
                sc.declared[gname.lower()] = g
                sc.pending_interface = g
        return procs

    def emit_pending_interface(self, sc, depth):
        g = getattr(sc, "pending_interface", None)
        if g is None:
            return
        sc.pending_interface = None
        self.emit("interface ", Ref(g, "decl"), kind="open-interface", depth=depth, opens=g)
        toks = ["module procedure "]
        for i, m in enumerate(g.members):
            if i:
                toks.append(", ")
            toks.append(Ref(m, "modproc"))
        self.emit(*toks, kind="decl", depth=depth + 1)
        self.emit("end interface ", Ref(g, "endname"), kind="close-interface", depth=depth, closes=g)

    def emit_unnamed_interfaces(self, sc, procs, depth):
        """Interface blocks without a name of their own: a defined-operator interface that repeats its generic spec on
        the END statement (F2003) and an abstract interface with one prototype (an interface body is a scoping unit
        without host association)."""
        if not self.opts["interfaces"]:
            return
        fns = [p for p in procs if p.kind == "function" and not p.attrs.get("bound_to") and 1 <= len(p.dummies) <= 2
               and all(not d.attrs.get("class") for d in p.dummies)]
        if fns and self.d_bool(3):
            f = self.d_pick(fns)
            self.nops = getattr(self, "nops", 0) + 1
            op = ".op" + "abcdefghijklmnopqrstuvwxyz"[self.nops % 26] * (1 + self.nops // 26) + "."
            spec = f"operator({op})" if self.d_bool(2) else f"operator ( {op} )"
            self.emit(f"interface {spec}", kind="open-interface", depth=depth)
            self.emit("module procedure ", Ref(f, "modproc"), kind="decl", depth=depth + 1)
            self.emit("end interface" if self.d_bool(4) else f"end interface {spec}", kind="close-interface", depth=depth)
            self.stats["unnamed_interfaces"] += 1
        if self.d_bool(4):
            pn = self.name_for(sc, allow_homonym=False, prefix="proto_")
            pr = self.new_ent(pn, "proto", sc)
            sc.declared[pn.lower()] = pr
            psc = Scope("interface-body", pr, None)
            pr.inner = psc
            dn = self.fresh(avoid={pn.lower()})
            d = self.new_ent(dn, "dummy", psc, typ=T_INT, writable=False)
            psc.declared[dn.lower()] = d
            self.emit("abstract interface", kind="open-interface", depth=depth)
            self.push(psc)
            self.emit("subroutine ", Ref(pr, "decl"), "(", Ref(d, "use", d.name), ")", kind="open-proto", depth=depth + 1)
            self.emit(f"{T_INT}, intent(in) :: ", Ref(d, "decl"), kind="decl", depth=depth + 2)
            self.emit("end subroutine ", Ref(pr, "endname"), kind="close-proto", depth=depth + 1)
            self.pop()
            self.emit("end interface", kind="close-interface", depth=depth)
            self.stats["unnamed_interfaces"] += 1
        if self.d_bool(3):
            # explicit interface of an external procedure: the interface body declares a callable entity of the module
            # (PUBLIC / PRIVATE like any other), the procedure itself lives elsewhere (never generated)
            xn = self.name_for(sc, allow_homonym=False, prefix="xi_")
            xp = self.new_ent(xn, "subroutine", sc, vis=self.vis_attr(sc, True))
            xp.attrs["interface_body"] = True
            xp.attrs["body_done"] = True  # callable from everywhere, also inside this module
            sc.declared[xn.lower()] = xp
            xsc = Scope("interface-body", xp, None)
            xp.inner = xsc
            dn = self.fresh(avoid={xn.lower()})
            d = self.new_ent(dn, "dummy", xsc, typ=T_INT, writable=False)
            xsc.declared[dn.lower()] = d
            xp.dummies.append(d)
            self.emit("interface", kind="open-interface", depth=depth)
            self.push(xsc)
            self.emit("subroutine ", Ref(xp, "decl"), "(", Ref(d, "use", d.name), ")", kind="open-proto", depth=depth + 1)
            self.emit(f"{T_INT}, intent(in) :: ", Ref(d, "decl"), kind="decl", depth=depth + 2)
            self.emit("end subroutine ", Ref(xp, "endname"), kind="close-proto", depth=depth + 1)
            self.pop()
            self.emit("end interface", kind="close-interface", depth=depth)
            self.stats["unnamed_interfaces"] += 1
            self.stats["interface_bodies"] += 1

    def gen_proc_body(self, p, depth, allow_internal=True, unit=False):
        psc = p.inner
        sc = p.scope
        toks = [f"{p.kind} ", Ref(p, "decl"), "("]
        for i, d in enumerate(p.dummies):
            if i:
                toks.append(", ")
            toks.append(Ref(d, "use", d.name))
            d.attrs["arglist"] = True
        toks.append(")")
        if p.result is not None:
            toks += [" result(", Ref(p.result, "use"), ")"]
        self.push(psc)
        self.emit(*toks, kind="open-unit" if unit else "open-proc", depth=depth, opens=p)
        self.gen_uses(psc, depth + 1)
        if unit:
            self.emit("implicit none", kind="implicit", depth=depth + 1)
        for d in p.dummies:
            if d.attrs.get("class"):
                bt = d.typ[1]
                self.emit("class(", Ref(bt, "typeref", self.spelling_in(psc, bt)), "), intent(inout) :: ", Ref(d, "decl"), kind="decl", depth=depth + 1)
            else:
                self.emit(f"{d.typ}, intent(in) :: ", Ref(d, "decl"), kind="decl", depth=depth + 1)
        if p.kind == "function":
            if p.result is not None:
                self.emit(f"{p.typ} :: ", Ref(p.result, "decl"), kind="decl", depth=depth + 1)
            else:
                r = self.new_ent(p.name, "local", psc, typ=p.typ)
                r.attrs["result"] = True
                r.attrs["implicit_result_of"] = p
                p.result = r
                self.emit(f"{p.typ} :: ", Ref(p, "resultdecl"), kind="decl", depth=depth + 1)
        for _ in range(self.d_int(0, 3)):
            self.gen_var(psc, depth + 1, module=False, local=True)
        self.gen_loopvars(psc, depth + 1)
        internal = []
        if allow_internal and self.opts["internal"] and self.d_bool(3):
            internal = self.plan_procs(psc, depth + 1)
            internal = [q for q in internal if q.name.lower() != p.name.lower()]
        self.gen_body(psc, depth + 1, procs_callable=internal, in_proc=p)
        if p.kind == "function":
            res = p.result
            rtok = Ref(p, "resultuse") if res.attrs.get("implicit_result_of") else Ref(res, "use")
            self.emit(rtok, " = ", *self.expr(psc, p.typ, 1), kind="exec", depth=depth + 1, simple=True)
        if internal:
            self.emit("contains", kind="contains", depth=depth)
            for q in internal:
                self.gen_proc_body(q, depth + 1, allow_internal=False)
        self.emit(f"end {p.kind} ", Ref(p, "endname"), kind="close-unit" if unit else "close-proc", depth=depth, closes=p)
        self.pop()

    # ---- executable part
    def vars_of(self, sc, typ, writable=False):
        out = []
        for n, e in sc.accessible().items():
            if e.kind in ("variable", "local", "dummy", "assoc") and e.typ == typ:
                if writable and (not e.writable or e.const or e in self.loopvars):
                    continue
                if e.attrs.get("implicit_result_of"):
                    continue
                out.append((n, e))
        return sorted(out, key=lambda x: (x[0], x[1].id))

    def subscript(self, sc, ent):
        """The subscript tokens a reference to `ent` needs: none for a scalar, '(2)' or '(i)' for an array."""
        if not ent.attrs.get("dims"):
            return []
        self.stats["subscripted"] += 1
        vs = self.vars_of(sc, T_INT)
        if vs and self.d_bool(2):
            n, e = self.d_pick(vs)
            return ["(", Ref(e, "use", n), ")"]
        return [self.d_pick(["(1)", "(2)", "( 3 )"])]

    def object_chain(self, sc):
        """obj, obj(i), obj%a(2)%b ... designating a scalar object of derived type -> (tokens, ("type", t)) or None"""
        objs = [(n, e) for n, e in sc.accessible().items() if e.kind in ("variable", "local", "dummy", "assoc") and isinstance(e.typ, tuple)]
        if not objs:
            return None
        n, obj = self.d_pick(sorted(objs, key=lambda x: (x[0], x[1].id)))
        toks = [Ref(obj, "use", n)] + self.subscript(sc, obj)
        t = obj.typ[1]
        for _ in range(2):
            nested = [m for m in t.all_members().values() if m.kind == "component" and isinstance(m.typ, tuple)]
            if not nested or self.d_bool(3):
                break
            m = self.d_pick(sorted(nested, key=lambda x: x.id))
            toks += ["%", Ref(m, "member")] + self.subscript(sc, m)
            t = m.typ[1]
        return toks, ("type", t)

    def member_chain(self, sc, typ, writable=False, maxdepth=3, only=None):
        """obj%a%b of the wanted scalar type -> token list or None"""
        objs = [(n, e) for n, e in sc.accessible().items() if e.kind in ("variable", "local", "dummy", "assoc") and isinstance(e.typ, tuple)
                and (e.writable or not writable) and (only is None or e is only)]
        if not objs:
            return None
        n, obj = self.d_pick(sorted(objs, key=lambda x: (x[0], x[1].id)))
        toks = [Ref(obj, "use", n)] + self.subscript(sc, obj)
        t = obj.typ[1]
        for level in range(maxdepth):
            mem = [m for m in t.all_members().values() if m.kind == "component"]
            want = [m for m in mem if m.typ == typ]
            nested = [m for m in mem if isinstance(m.typ, tuple)]
            if want and (not nested or self.d_bool(2) or level == maxdepth - 1):
                m = self.d_pick(sorted(want, key=lambda x: x.id))
                toks += ["%", Ref(m, "member")]
                if m.scope.ent is not t:
                    self.stats["inherited"] += 1
                if level >= 1:
                    self.stats["member_chain"] += 1
                return toks
            if nested:
                m = self.d_pick(sorted(nested, key=lambda x: x.id))
                toks += ["%", Ref(m, "member")] + self.subscript(sc, m)
                if m.scope.ent is not t:
                    self.stats["inherited"] += 1
                t = m.typ[1]
            else:
                return None
        return None

    def expr(self, sc, typ, depth):
        k = self.d_int(0, 9)
        vs = self.vars_of(sc, typ)
        if k <= 3 and vs:
            n, e = self.d_pick(vs)
            return [Ref(e, "use", n)]
        if k == 4:
            mc = self.member_chain(sc, typ)
            if mc:
                return mc
        if k == 5 and depth < 2:
            fs = [(n, e) for n, e in sc.accessible().items() if e.kind == "function" and e.typ == typ and self.callable_from(sc, e)
                  and all(not d.attrs.get("class") for d in e.dummies)]
            if fs:
                n, f = self.d_pick(sorted(fs, key=lambda x: (x[0], x[1].id)))
                toks = [Ref(f, "call", n), "("]
                for i, d in enumerate(f.dummies):
                    if i:
                        toks.append(", ")
                    toks += self.expr(sc, d.typ, depth + 1)
                return toks + [")"]
        if k >= 6 and depth < 2:
            if vs and self.d_bool(2):
                # the same name twice, separated by a single operator character (i+i)
                n, e = self.d_pick(vs)
                self.stats["same_line_dups"] += 1
                return [Ref(e, "use", n), self.d_pick(["+", "*", "-"]), Ref(e, "use", n)]
            return self.expr(sc, typ, depth + 1) + [self.d_pick([" + ", " * ", "-", "+"])] + self.expr(sc, typ, depth + 1)
        return ["2" if typ == T_INT else "0.5"]

    def callable_from(self, sc, proc):
        """R8: no recursion - only procedures whose body has been completed or that come from another unit."""
        s = sc
        while s is not None:
            if s.ent is proc:
                return False
            s = s.parent
        return proc.attrs.get("body_done", False) or proc.scope.unit() is not sc.unit()

    def gen_body(self, sc, depth, procs_callable=(), in_proc=None, nest=0):
        n = self.d_int(1, 4 if nest == 0 else 2)
        for _ in range(n):
            self.gen_stmt(sc, depth, nest)
        if in_proc is not None:
            in_proc.attrs["body_done"] = True

    def gen_stmt(self, sc, depth, nest):
        k = self.d_int(0, 13)
        if k <= 3:
            typ = self.d_pick([T_INT, T_REAL])
            ws = self.vars_of(sc, typ, writable=True)
            if ws:
                n, e = self.d_pick(ws)
                if self.d_bool(5):
                    # the IF statement (no THEN) opens nothing
                    self.emit("if (", *self.expr(sc, T_INT, 1), " > 0) ", Ref(e, "use", n), " = ", *self.expr(sc, typ, 0), kind="exec", depth=depth, simple=True)
                    return
                self.emit(Ref(e, "use", n), " = ", *self.expr(sc, typ, 0), kind="exec", depth=depth, simple=True)
                return
        if k == 4:
            typ = self.d_pick([T_INT, T_REAL])
            mc = self.member_chain(sc, typ, writable=True)
            if mc:
                self.emit(*mc, " = ", *self.expr(sc, typ, 0), kind="exec", depth=depth, simple=True)
                return
        if k in (5, 6):
            subs = [(n, e) for n, e in sc.accessible().items() if e.kind == "subroutine" and self.callable_from(sc, e)
                    and all(not d.attrs.get("class") for d in e.dummies)]
            gens = [(n, e) for n, e in sc.accessible().items() if e.kind == "interface" and all(self.callable_from(sc, m) for m in e.members)]
            if gens and self.d_bool(3):
                n, g = self.d_pick(sorted(gens, key=lambda x: (x[0], x[1].id)))
                m = self.d_pick(g.members)
                self.emit("call ", Ref(g, "call", n), "(", *self.expr(sc, m.dummies[0].typ, 1), ")", kind="exec", depth=depth, simple=True)
                return
            if subs:
                n, p = self.d_pick(sorted(subs, key=lambda x: (x[0], x[1].id)))
                toks = ["call ", Ref(p, "call", n), "("]
                if self.d_bool(4):
                    # a CALL as the action of a one-line IF
                    self.stats["if_call"] += 1
                    toks = ["if (", *self.expr(sc, T_INT, 1), self.d_pick([" > 0) ", " > 0)  ", ">0) "])] + toks
                for i, d in enumerate(p.dummies):
                    if i:
                        toks.append(", ")
                    toks += self.expr(sc, d.typ, 1)
                self.emit(*toks, ")", kind="exec", depth=depth, simple=True)
                return
        if k == 7:
            # type-bound call  obj%b(...)
            objs = [(n, e) for n, e in sc.accessible().items() if e.kind in ("variable", "local", "dummy") and isinstance(e.typ, tuple) and e.writable]
            for n, obj in sorted(objs, key=lambda x: (x[0], x[1].id)):
                bs = [m for m in obj.typ[1].all_members().values() if m.kind == "binding" and self.callable_from(sc, m.target)]
                if bs:
                    b = self.d_pick(sorted(bs, key=lambda x: x.id))
                    tgt = b.target
                    toks = ["call ", Ref(obj, "use", n), *self.subscript(sc, obj), "%", Ref(b, "member"), "("]
                    first = True
                    for d in tgt.dummies:
                        if d.attrs.get("class"):
                            continue
                        if not first:
                            toks.append(", ")
                        first = False
                        toks += self.expr(sc, d.typ, 1)
                    self.emit(*toks, ")", kind="exec", depth=depth, simple=True)
                    return
        if k >= 8 and nest < 3 and self.opts["constructs"]:
            self.gen_construct(sc, depth, nest, k)
            return
        if k == 13 or True:
            # a statement mentioning names inside a character literal and a comment (must not count)
            vs = self.vars_of(sc, T_INT) + self.vars_of(sc, T_REAL)
            if self.d_bool(6):
                # I/O statements whose first word is END or looks like a block keyword (must not close or open anything)
                iv = self.vars_of(sc, T_INT)
                form = self.d_int(0, 5)
                if form <= 2 and iv:
                    n, e = self.d_pick(iv)
                    self.emit(["end file ", "endfile ", "rewind "][form], Ref(e, "use", n), kind="exec", depth=depth, simple=True)
                else:
                    self.emit(["end file 10", "endfile (10)", "end file (unit=10)", "backspace 10", "end file(10)", "flush (10)"][form],
                              kind="exec", depth=depth, simple=True)
                self.stats["io_end_file"] += 1
                return
            if vs:
                n, e = self.d_pick(vs)
                # (literal before the name, literal after it, trailing comment): both quote characters, a quote of the
                # other kind inside a literal, a doubled quote, '!' inside a literal, and the same characters in the comment
                style = self.d_int(0, 6)
                before, after, comment = [
                    (None, f"'{n} + {n}'", f"{n} is printed, {n}+{n}"),
                    (None, f"'{n} + {n}'", f"{n} is printed, {n}+{n}"),
                    (f"\"it's {n} =\"", None, f"don't change {n} after this & that; really"),
                    (f"'say \"{n}\"'", None, f"the \"{n}\" above is text"),
                    (f"'{n}''s value'", f"\"{n}\"\"{n}\"", f"{n}'s value, {n}"),
                    (f"\"stop! {n}\"", f"'{n}!'", f"{n}! done"),
                    (f"'a \"{n}\" b'", f"\"c '{n}' d\"", f"'{n}' and \"{n}\" aren't names; & more"),
                ][style]
                toks = ["print *, "] + ([before, ", "] if before else []) + [Ref(e, "use", n)] + ([", ", after] if after else [])
                s = self.emit(*toks, kind="exec", depth=depth, simple=True)
                s.comment = comment
                if style >= 2:
                    self.stats["quote_mix"] += 1
                return
            self.emit("continue", kind="exec", depth=depth, simple=True)

    def gen_construct(self, sc, depth, nest, k):
        self.construct_id += 1
        cid = ("construct", self.construct_id)
        self.stats["constructs"] += 1
        named = self.d_bool(3)
        cname = None
        if named:
            cn = self.fresh(avoid=set(sc.accessible()), prefix="c_")
            cname = self.new_ent(cn, "construct", sc)
        pre = [Ref(cname, "decl"), ": "] if named else []
        post = [" ", Ref(cname, "endname")] if named else []
        iv = self.free_loopvar(sc) if k == 8 else None
        arr = self.free_array(sc) if k == 13 else None
        cls = None
        if k == 13:
            cd = [(n, e) for n, e in sorted(sc.accessible().items()) if e.kind == "dummy" and e.attrs.get("class") and sc.lookup(n) is e]
            cls = cd[0] if cd else None
        if k == 8 and iv is None:
            self.stats["more_constructs"] += 1
            self.emit(*pre, "do while (", *self.expr(sc, T_INT, 1), " > 0)", kind="open-construct", depth=depth, opens=cid)
            self.gen_body(sc, depth + 1, nest=nest + 1)
            self.emit("end do", *post, kind="close-construct", depth=depth, closes=cid)
        elif k == 13 and cls is not None and self.d_bool(2):
            self.stats["more_constructs"] += 1
            n, d = cls
            bt = d.typ[1]
            so = self.emit(*pre, "select type (", Ref(d, "use", n), ")", kind="open-construct", depth=depth, opens=cid)
            heads = [so]  # the SELECT TYPE statement and its type guard statements
            self.seltype_stack = list(getattr(self, "seltype_stack", [])) + [(d, heads)]
            so.seltype = tuple(self.seltype_stack)
            heads.append(self.emit("class is (", Ref(bt, "typeref", self.spelling_in(sc, bt)), ")", *post, kind="mid-construct", depth=depth))
            self.gen_body(sc, depth + 1, nest=nest + 1)
            heads.append(self.emit("class default", *post, kind="mid-construct", depth=depth))
            self.gen_body(sc, depth + 1, nest=nest + 1)
            self.emit("end select", *post, kind="close-construct", depth=depth, closes=cid)
            self.seltype_stack = self.seltype_stack[:-1]
        elif k == 13 and arr is not None:
            self.stats["more_constructs"] += 1
            n = arr.name
            if self.d_bool(3):
                # the statement form opens nothing
                self.emit("where (", Ref(arr, "use", n), " > 0.0) ", Ref(arr, "use", n), " = 1.0", kind="exec", depth=depth, simple=True)
                if named:
                    self.emit(*pre, "if (", *self.expr(sc, T_INT, 1), " > 0) then", kind="open-construct", depth=depth, opens=cid)
                    self.emit("end if", *post, kind="close-construct", depth=depth, closes=cid)
            else:
                self.emit(*pre, "where (", Ref(arr, "use", n), " > 0.0)", kind="open-construct", depth=depth, opens=cid)
                self.emit(Ref(arr, "use", n), " = ", Ref(arr, "use", n), " + 1.0", kind="exec", depth=depth + 1)
                if self.d_bool(2):
                    self.emit("elsewhere (", Ref(arr, "use", n), " < -1.0)", *post, kind="mid-construct", depth=depth)
                    self.emit(Ref(arr, "use", n), " = -1.0", kind="exec", depth=depth + 1)
                if self.d_bool(2):
                    self.emit("elsewhere", *post, kind="mid-construct", depth=depth)
                    self.emit(Ref(arr, "use", n), " = 0.0", kind="exec", depth=depth + 1)
                self.emit("end where", *post, kind="close-construct", depth=depth, closes=cid)
        elif k == 8 and iv is not None:
            n = iv.name
            s = self.emit(*pre, "do ", Ref(iv, "use", n), " = 1, 3", kind="open-construct", depth=depth, opens=cid)
            self.loopvars.append(iv)
            self.gen_body(sc, depth + 1, nest=nest + 1)
            self.loopvars.pop()
            self.emit("end do", *post, kind="close-construct", depth=depth, closes=cid)
        elif k == 9:
            self.emit(*pre, "if (", *self.expr(sc, T_INT, 1), " > 0) then", kind="open-construct", depth=depth, opens=cid)
            self.gen_body(sc, depth + 1, nest=nest + 1)
            if self.d_bool(3):
                self.stats["more_constructs"] += 1
                self.emit(self.d_pick(["else if (", "elseif (", "else  if ("]), *self.expr(sc, T_INT, 1), " > 1) then", *post, kind="mid-construct", depth=depth)
                self.gen_body(sc, depth + 1, nest=nest + 1)
            if self.d_bool(2):
                self.emit("else", *post, kind="mid-construct", depth=depth)
                self.gen_body(sc, depth + 1, nest=nest + 1)
            self.emit("end if", *post, kind="close-construct", depth=depth, closes=cid)
        elif k == 10:
            self.emit(*pre, "select case (", *self.expr(sc, T_INT, 1), ")", kind="open-construct", depth=depth, opens=cid)
            self.emit("case (1)", *post, kind="mid-construct", depth=depth)
            self.gen_body(sc, depth + 1, nest=nest + 1)
            self.emit("case default", *post, kind="mid-construct", depth=depth)
            self.gen_body(sc, depth + 1, nest=nest + 1)
            self.emit("end select", *post, kind="close-construct", depth=depth, closes=cid)
        elif k == 11:
            typ = self.d_pick([T_INT, T_REAL])
            an = self.name_for(Scope("tmp", None, sc) if False else sc, allow_homonym=False)
            asc = Scope("associate", None, sc)
            oc = self.object_chain(sc) if self.d_bool(3) else None
            if oc is not None:
                # the associate name stands for an object of derived type: 'associate (p => a(i)%b(2))', then p%c
                src, typ = oc
                self.stats["assoc_objects"] += 1
            else:
                src = self.expr(sc, typ, 1)
            a = self.new_ent(an, "assoc", asc, typ=typ, writable=False)
            asc.declared[an.lower()] = a
            self.emit(*pre, "associate (", Ref(a, "decl"), " => ", *src, ")", kind="open-construct", depth=depth, opens=cid)
            self.push(asc)
            if oc is not None:
                for t_ in (T_INT, T_REAL):
                    mc = self.member_chain(asc, t_, only=a)
                    if mc:
                        self.emit("print *, ", *mc, kind="exec", depth=depth + 1, simple=True)
                        break
            self.gen_body(asc, depth + 1, nest=nest + 1)
            self.pop()
            self.emit("end associate", *post, kind="close-construct", depth=depth, closes=cid)
        elif k == 12:
            bsc = Scope("block", None, sc)
            self.emit(*pre, "block", kind="open-construct", depth=depth, opens=cid)
            self.push(bsc)
            for _ in range(self.d_int(1, 2)):
                self.gen_var(bsc, depth + 1, module=False, local=True)
                self.stats["shadow"] += 1
            self.gen_body(bsc, depth + 1, nest=nest + 1)
            self.pop()
            self.emit("end block", *post, kind="close-construct", depth=depth, closes=cid)
        else:
            self.emit("continue", kind="exec", depth=depth, simple=True)


def patched_emit_interfaces(builder):
    """Interfaces are planned while procedures are planned but must be emitted in the specification
    part: post-process the statement list of every file."""
    for f in builder.files:
        pass


@st.composite
def program_st(draw, **opts):
    b = Builder(draw, opts)
    return b.build()


def fix_interfaces(prog):
    """Insert the generic-interface statements of every module right before its CONTAINS."""
    for f in prog.files:
        out = []
        stack = []
        for s in f.stmts:
            if s.kind == "open-unit":
                stack.append(s.opens)
            if s.kind == "contains" and s.depth == 0 and stack:
                m = stack[-1]
                g = getattr(m.inner, "pending_interface", None)
                if g is not None:
                    m.inner.pending_interface = None
                    toks = ["module procedure "]
                    for i, mem in enumerate(g.members):
                        if i:
                            toks.append(", ")
                        toks.append(Ref(mem, "modproc"))
                    out.append(Stmt(["interface ", Ref(g, "decl")], kind="open-interface", depth=1, opens=g))
                    out.append(Stmt(toks, kind="decl", depth=2))
                    out.append(Stmt(["end interface ", Ref(g, "endname")], kind="close-interface", depth=1, closes=g))
            if s.kind == "close-unit" and stack:
                stack.pop()
            out.append(s)
        f.stmts = out


def call_name_index(toks):
    """Index of the reference that follows the CALL keyword of a statement ('call s(..)', 'if (c) call s(..)'), or None."""
    for i, t in enumerate(toks[:-1]):
        if t == "call " and isinstance(toks[i + 1], Ref):
            return i + 1
    return None


def chain_prev(toks, ti):
    """Index of the reference that toks[ti] is a member of ('base%x', 'base(2)%x', 'base(i)%x'), or None."""
    if ti < 2 or toks[ti - 1] != "%":
        return None
    k = ti - 2
    if isinstance(toks[k], str):
        if toks[k] == ")":
            k -= 3  # "(", index variable, ")"
        elif toks[k].lstrip().startswith("("):
            k -= 1  # a literal subscript "(2)"
        else:
            return None
    return k if k >= 0 and isinstance(toks[k], Ref) else None


def chain_continues(toks, ti):
    """Is the reference toks[ti] followed by '%member' (after its own subscript, if it is an array)?"""
    j = ti + 1
    if isinstance(toks[ti], Ref) and toks[ti].ent.attrs.get("dims") and j < len(toks) and isinstance(toks[j], str):
        j += 3 if toks[j] == "(" else 1
    return j < len(toks) and toks[j] == "%"


def chain_root_index(toks, ti):
    k = ti
    while chain_prev(toks, k) is not None:
        k = chain_prev(toks, k)
    return k


# ------------------------------------------------------------------ layout and rendering
@dataclass
class Layout:
    indent: int = 2
    kwcase: str = "lower"  # lower | upper | title
    idcase: str = "asis"  # asis | upper | lower
    eol: str = "\n"
    trailing_blanks: bool = False
    blank_every: int = 0  # insert a blank line before every n-th statement
    comment_every: int = 0  # insert an ordinary comment line before every n-th statement
    trailing_comments: bool = True
    split_every: int = 0  # split every n-th splittable statement with '&'
    lead_amp: bool = False
    label_every: int = 0  # free form: every n-th executable / END-of-construct statement carries a numeric statement label
    labelled_do: bool = False  # free form: every other unnamed DO construct is written 'do 110 i = ...' / '110 continue'
    label_reuse: bool = False  # statement labels start again in every procedure (a label belongs to its scoping unit)
    label_end_do: bool = False  # every other labelled DO ends with '110 end do' instead of '110 continue'
    split_pos: int = 0  # 0: break a statement in the middle; k > 0: after its (1 + (k-1) mod (n-1))-th piece, e.g. right after the keyword
    amp_tight: bool = False  # with lead_amp: the text follows the leading '&' directly ('&name' instead of '& name')
    cont_col1: bool = False  # without lead_amp: the continuation line starts in column 1
    cont_blank: str = None  # a line of this text ("" or blanks only) between the lines of a continued statement
    fixed_zero6: bool = False  # fixed form: every third initial line carries a zero in column 6 (same as a blank)
    fixed_tight: bool = False  # fixed form: break between two words, no blank before the break nor after the continuation mark
    join_every: int = 0  # join every n-th pair of simple statements with ';'
    space_end: str = " "  # 'end subroutine' vs 'endsubroutine' (only for constructs that allow it)
    fixed: bool = False
    cont_char: str = "&"
    comment_flag: str = "C"
    end_style: str = "full"  # full | kw (end subroutine) | bare (end) | joined (endsubroutine x, enddo)

    def key(self):
        return tuple(sorted(self.__dict__.items()))


layout_st = st.builds(
    Layout,
    indent=st.sampled_from([0, 1, 2, 4, 8]),
    kwcase=st.sampled_from(["lower", "upper", "title"]),
    idcase=st.sampled_from(["asis", "asis", "upper", "lower", "mixed"]),
    eol=st.sampled_from(["\n", "\n", "\r\n", "\r"]),
    trailing_blanks=st.booleans(),
    blank_every=st.sampled_from([0, 0, 2, 3, 5]),
    comment_every=st.sampled_from([0, 0, 2, 3, 7]),
    trailing_comments=st.booleans(),
    split_every=st.sampled_from([0, 0, 1, 2, 3]),
    lead_amp=st.booleans(),
    amp_tight=st.booleans(),
    split_pos=st.sampled_from([0, 0, 1, 1, 2, 3, 5]),
    label_every=st.sampled_from([0, 0, 0, 2, 3, 5]),
    labelled_do=st.sampled_from([False, False, True]),
    label_reuse=st.booleans(),
    label_end_do=st.booleans(),
    cont_col1=st.booleans(),
    cont_blank=st.sampled_from([None, None, "", "   ", " "]),
    fixed_tight=st.booleans(),
    fixed_zero6=st.booleans(),
    join_every=st.sampled_from([0, 0, 2, 3]),
    space_end=st.sampled_from([" ", " ", "  "]),
    end_style=st.sampled_from(["full", "full", "kw", "bare", "joined"]),
)

PLAIN = Layout()


@dataclass
class Occ:
    file: str
    line: int
    col: int
    text: str
    ent: Ent
    role: str
    scope: object = None
    stmt: object = None
    tok_i: int = -1
    split: bool = False  # the statement was split over continuation lines
    joined: bool = False  # the statement shares its line with another one (;)

    @property
    def end(self):
        return self.col + len(self.text)


@dataclass
class Rendered:
    files: dict  # name -> text
    lines: dict  # name -> list of lines
    occs: list
    stmt_lines: dict  # id(stmt) -> (file, first line, last line)
    layout: Layout
    line_of_stmt: dict = field(default_factory=dict)


KW_RE = re.compile(r"[A-Za-z_]\w*")


def _case_kw(text, layout):
    if layout.kwcase == "lower":
        return text
    out, i, in_q = "", 0, None
    # do not touch character literals
    parts = re.split(r"('(?:[^']|'')*')", text)
    res = []
    for p in parts:
        if p.startswith("'"):
            res.append(p)
        else:
            res.append(p.upper() if layout.kwcase == "upper" else KW_RE.sub(lambda m: m.group(0).capitalize(), p))
    return "".join(res)


_MIX = [0]


def _case_id(text, layout):
    if layout.idcase == "mixed":
        # every occurrence in another spelling: Fortran names are case-insensitive everywhere (declarations, USE ONLY and
        # rename lists, PUBLIC / PRIVATE statements, calls, END statements)
        _MIX[0] += 1
        k = _MIX[0] % 3
        return text.upper() if k == 0 else (text.lower() if k == 1 else text.capitalize())
    return text.upper() if layout.idcase == "upper" else (text.lower() if layout.idcase == "lower" else text)


def render_fixed(prog: Program, layout: Layout) -> Rendered:
    _MIX[0] = 0
    """Fixed source form: statement field from column 7, continuation mark in column 6, comment lines
    flagged in column 1, numeric labels in columns 1-5, labelled DO ... <label> CONTINUE (shared
    terminal labels for directly nested loops), lines at most 72 characters."""
    files, flines, occs, stmt_lines = {}, {}, [], {}
    flags = ["C", "c", "*", "!", "d", "D"]
    for f in prog.files:
        name = os.path.splitext(f.name)[0] + ".f"
        lines = []
        nst = 0
        label_next = [10]
        do_stack = []  # (construct id, label)
        stmts = f.stmts
        for si, s in enumerate(stmts):
            nst += 1
            if layout.blank_every and nst % layout.blank_every == 0:
                lines.append("")
            if layout.comment_every and nst % layout.comment_every == 0:
                fl = flags[(nst // layout.comment_every) % len(flags)] if layout.comment_flag == "mixed" else layout.comment_flag
                lines.append(f"{fl} note: comment line {nst} call contains end do")
            toks = list(s.toks)
            label = ""
            # labelled DO for unnamed DO constructs
            if s.kind == "open-construct" and toks and toks[0] == "do " and layout.split_every != 1:
                nxt = stmts[si + 1] if si + 1 < len(stmts) else None
                # a terminal label can be shared only if the two loops also end together: the END DO of this loop is
                # directly followed by the END DO of the enclosing one
                ends_with_outer = False
                if do_stack and do_stack[-1][2] == si - 1:
                    ci = next((j for j in range(si + 1, len(stmts)) if stmts[j].kind == "close-construct" and stmts[j].closes == s.opens), None)
                    ends_with_outer = (ci is not None and ci + 1 < len(stmts) and stmts[ci + 1].kind == "close-construct"
                                       and stmts[ci + 1].closes == do_stack[-1][0])
                if ends_with_outer and layout.join_every:
                    lab = do_stack[-1][1]  # shared terminal label with the directly enclosing loop
                    shared = True
                else:
                    lab = label_next[0]
                    label_next[0] += 10
                    shared = False
                do_stack.append((s.opens, lab, si, shared))
                toks = [f"do {lab} "] + toks[1:]
            elif s.kind == "close-construct" and do_stack and s.closes == do_stack[-1][0]:
                cid, lab, _, shared = do_stack.pop()
                if shared:
                    stmt_lines[id(s)] = (name, len(lines), len(lines))  # terminated by the outer loop's label line
                    # the shared CONTINUE line is emitted when the outer loop closes
                    pending_shared = True
                    # map to the next emitted line
                    stmt_lines[id(s)] = (name, -1, -1)
                    s._shared = lab
                    continue
                toks = ["continue"]
                label = str(lab)
            pieces = []
            for ti, t in enumerate(toks):
                if isinstance(t, Ref):
                    t._ti = ti
                    pieces.append((_case_id(t.spelling(), layout), t))
                else:
                    pieces.append((_case_kw(t, layout), None))
            ind = " " * min(layout.indent * s.depth, 12)
            cur = f"{label:>5} " if label else ("     0" if layout.fixed_zero6 and nst % 3 == 0 else "      ")
            cur += ind
            first_line = len(lines)
            was_split = False
            for pi, (txt, ref) in enumerate(pieces):
                if (layout.fixed_tight and pi == 1 and ref is not None and pieces[0][1] is None and pieces[0][0].endswith(" ")
                        and pieces[0][0].rstrip()[-1:].isalpha() and nst % 2 == 0):
                    # 'subroutine' | 'name(': no blank before the break, the text right after the continuation mark (blanks are
                    # insignificant in fixed form, the two words still are two tokens)
                    lines.append(cur.rstrip())
                    cur = "     " + layout.cont_char
                    was_split = True
                elif len(cur) + len(txt) > (66 if not layout.split_every else 30 + 8 * layout.split_every) and len(cur) > 12 + len(ind):
                    # a trailing comment on a line that is continued, a comment line between the lines of a statement
                    if layout.trailing_comments and nst % 2 == 0 and len(cur) < 56 and "'" not in cur and '"' not in cur:
                        cur += " ! goes on"
                    lines.append(cur)
                    if layout.comment_every and nst % 3 == 0:
                        fl = flags[nst % len(flags)] if layout.comment_flag == "mixed" else layout.comment_flag
                        lines.append(f"{fl} comment inside a statement, & call end")
                    cur = "     " + layout.cont_char + ind + "  "
                    was_split = True
                if ref is not None:
                    occs.append(Occ(name, len(lines), len(cur), txt, ref.ent, ref.role, s.scope, s, ref._ti, was_split, False))
                cur += txt
            if s.comment and layout.trailing_comments and len(cur) < 60:
                cur += " ! " + s.comment[: 70 - len(cur)]
            lines.append(cur)
            stmt_lines[id(s)] = (name, first_line, len(lines) - 1)
        # shared-label END DOs point at the line of the label that terminates them
        for s in stmts:
            if stmt_lines.get(id(s), (None, 0, 0))[1] == -1:
                lab = s._shared
                for i, l in enumerate(lines):
                    if l[:5].strip() == str(lab):
                        stmt_lines[id(s)] = (name, i, i)
        # mark split occurrences of statements that were continued (all occs of that stmt)
        text = layout.eol.join(lines) + layout.eol
        files[name] = text
        flines[name] = lines
    cont_stmts = {id(o.stmt) for o in occs if o.split}
    for o in occs:
        if id(o.stmt) in cont_stmts:
            o.split = True
    r = Rendered(files, flines, occs, stmt_lines, layout)
    r.prog = prog
    return r


def render(prog: Program, layout: Layout = PLAIN, suffix=None) -> Rendered:
    if layout.fixed:
        return render_fixed(prog, layout)
    _MIX[0] = 0
    files, flines, occs, stmt_lines = {}, {}, [], {}
    for f in prog.files:
        name = f.name if suffix is None else os.path.splitext(f.name)[0] + suffix
        lines = []
        nsimple = nsplit = nst = 0
        pending_join = None
        i = 0
        stmts = f.stmts
        next_label, ndo, nlab, do_labels = 100, 0, 0, {}
        while i < len(stmts):
            s = stmts[i]
            nst += 1
            stmt_label = None
            if layout.blank_every and nst % layout.blank_every == 0:
                lines.append("")
            if layout.comment_every and nst % layout.comment_every == 0:
                lines.append(" " * (layout.indent * s.depth) + "! note: ordinary comment " + str(nst))
            # pieces: list of (text, ref|None)
            pieces = []
            toks = s.toks
            if s.kind.startswith("close-") and layout.end_style != "full" and toks and isinstance(toks[0], str) and toks[0].startswith("end "):
                style = layout.end_style
                if style == "bare" and s.kind in ("close-unit", "close-proc"):
                    toks = ["end"]
                elif style == "kw" or (style == "bare"):
                    toks = [toks[0].rstrip()] if s.kind != "close-construct" else toks
                elif style == "joined":
                    toks = ["end" + toks[0][4:]] + list(toks[1:])
            # statement labels (free form allows them as well): labelled DO ... CONTINUE, labels on END DO / END IF / ...
            if layout.label_reuse and s.kind in ("open-unit", "open-proc"):
                next_label = 100
            if layout.labelled_do and s.kind == "open-construct" and toks and toks[0] == "do ":
                ndo += 1
                if ndo % 2 == 1:
                    next_label += 10
                    do_labels[s.opens] = next_label
                    toks = [f"do {next_label} "] + list(toks[1:])
            elif s.kind == "close-construct" and s.closes in do_labels:
                stmt_label = do_labels.pop(s.closes)
                if not (layout.label_end_do and (stmt_label // 10) % 2 == 0):
                    toks = ["continue"]
            elif layout.label_every and s.kind in ("exec", "close-construct"):
                nlab += 1
                if nlab % layout.label_every == 0:
                    next_label += 10
                    stmt_label = next_label
            for ti, t in enumerate(toks):
                if isinstance(t, Ref):
                    t._ti = ti
                    pieces.append((_case_id(t.spelling(), layout), t))
                else:
                    txt = _case_kw(t, layout)
                    if layout.space_end != " " and txt.lower().startswith("end "):
                        txt = txt[:3] + layout.space_end + txt[4:]
                    pieces.append((txt, None))
            ind = " " * (layout.indent * s.depth)
            do_join = False
            if s.simple and layout.join_every and i + 1 < len(stmts) and stmts[i + 1].simple and stmts[i + 1].depth == s.depth:
                nsimple += 1
                do_join = nsimple % layout.join_every == 0
            do_split = False
            if layout.split_every and len(pieces) >= 3 and not do_join:
                nsplit += 1
                do_split = nsplit % layout.split_every == 0
            first_line = len(lines)
            cur = ind + (f"{stmt_label} " if stmt_label is not None else "")
            if do_split:
                k = max(1, len(pieces) // 2) if not layout.split_pos else 1 + (layout.split_pos - 1) % (len(pieces) - 1)
                # never split inside a character literal piece (pieces are atomic anyway)
                for txt, ref in pieces[:k]:
                    if ref is not None:
                        occs.append(Occ(name, len(lines), len(cur), txt, ref.ent, ref.role, s.scope, s, ref._ti, True, False))
                    cur += txt
                cur += " &"
                lines.append(cur)
                if layout.comment_every and nsplit % 2 == 0:
                    lines.append(ind + "  ! comment between continuation lines")
                elif layout.cont_blank is not None:
                    lines.append(layout.cont_blank)
                if layout.lead_amp:
                    cur = ind + "    " + ("&" if layout.amp_tight else "& ")
                else:
                    cur = "" if layout.cont_col1 else ind + "    "
                for txt, ref in pieces[k:]:
                    if ref is not None:
                        occs.append(Occ(name, len(lines), len(cur), txt, ref.ent, ref.role, s.scope, s, ref._ti, True, False))
                    cur += txt
            else:
                for txt, ref in pieces:
                    if ref is not None:
                        occs.append(Occ(name, len(lines), len(cur), txt, ref.ent, ref.role, s.scope, s, ref._ti, False, do_join))
                    cur += txt
                if do_join:
                    s2 = stmts[i + 1]
                    cur += "; "
                    for ti2, t in enumerate(s2.toks):
                        if isinstance(t, Ref):
                            txt = _case_id(t.spelling(), layout)
                            occs.append(Occ(name, len(lines), len(cur), txt, t.ent, t.role, s2.scope, s2, ti2, False, True))
                            cur += txt
                        else:
                            cur += _case_kw(t, layout)
                    stmt_lines[id(s2)] = (name, len(lines), len(lines))
                    i += 1
            if s.comment and layout.trailing_comments:
                cur += "  ! " + s.comment
            if layout.trailing_blanks:
                cur += "   "
            lines.append(cur)
            stmt_lines[id(s)] = (name, first_line, len(lines) - 1)
            i += 1
        text = layout.eol.join(lines) + layout.eol
        files[name] = text
        flines[name] = lines
    for o in occs:
        if o.role in ("decl",) and o.ent.decl is None:
            o.ent.decl = (o.file, o.line, o.col)
    r = Rendered(files, flines, occs, stmt_lines, layout)
    r.prog = prog
    return r


def assign_decls(prog, rendered):
    """Declaration site of every entity under this rendering: {ent id: (file, line, col)}."""
    d = {}
    for o in rendered.occs:
        if o.role == "decl" and o.ent.id not in d:
            d[o.ent.id] = (o.file, o.line, o.col)
    # a binding written `procedure :: impl` is declared by that occurrence of impl's name
    for o in rendered.occs:
        pass
    return d


# ------------------------------------------------------------------ gfortran validation of the generator
def gfortran_check(rendered, workdir=None, std=None):
    if std is None:
        std = "legacy" if rendered.layout.fixed else "f2018"
    return _gfortran_check(rendered, workdir, std)


def _gfortran_check(rendered, workdir, std):
    """-> None if gfortran accepts the workspace, else stderr (files are compiled in name order)."""
    own = workdir is None
    d = tempfile.mkdtemp(prefix="fm_gf_") if own else workdir
    try:
        paths = []
        for n in sorted(rendered.files):
            p = os.path.join(d, n)
            with open(p, "w", newline="") as fh:
                fh.write(rendered.files[n].replace("\r\n", "\n").replace("\r", "\n"))
            paths.append(p)
        # free form: the 132-column limit of F2018 (lifted in F2023) is not what is being validated
        extra = ["-fd-lines-as-comments"] if rendered.layout.fixed else ["-ffree-line-length-none"]
        p = subprocess.run(["gfortran", "-fsyntax-only", f"-std={std}", "-J", d] + extra + paths, capture_output=True, text=True)
        return None if p.returncode == 0 else p.stderr
    finally:
        if own:
            import shutil

            shutil.rmtree(d, ignore_errors=True)
