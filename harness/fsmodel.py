"""Reference model of fortls source-file discovery, re-implemented from the documentation
(docs/options.rst) with its own glob expander over os.scandir — no pathlib.glob, no fortls code.

  expected_files(root, source_dirs|None, excl_paths, incl_suffixes, excl_suffixes) -> set of paths
"""
from __future__ import annotations

import fnmatch
import os

# "By default, incl_suffixes are defined as .F .f .F03 .f03 .F05 .f05 .F08 .f08 .F18 .f18 .F77 .f77
#  .F90 .f90 .F95 .f95 .FOR .for .FPP .fpp"
DEFAULT_SUFFIXES = [p + s for s in ["", "03", "05", "08", "18", "77", "90", "95"] for p in (".f", ".F")] + [".for", ".FOR", ".fpp", ".FPP"]


def suffix_ok(name: str, incl_suffixes=()):
    return any(name.endswith(s) for s in list(DEFAULT_SUFFIXES) + list(incl_suffixes))


def _subdirs_recursive(d):
    out = [d]
    try:
        ents = sorted(os.scandir(d), key=lambda e: e.name)
    except OSError:
        return out
    for e in ents:
        if e.is_dir(follow_symlinks=True):
            out += _subdirs_recursive(e.path)
    return out


def expand_glob(pattern: str, root: str):
    """Paths (files and directories) matched by a relative-or-absolute glob pattern."""
    if os.path.isabs(pattern):
        base, rel = "/", pattern.lstrip("/")
    else:
        base, rel = root, pattern
    comps = [c for c in rel.split("/") if c not in ("", ".")]
    cur = [base]
    for i, c in enumerate(comps):
        nxt = []
        last = i == len(comps) - 1
        for d in cur:
            if not os.path.isdir(d):
                continue
            if c == "**":
                nxt += _subdirs_recursive(d)  # zero or more directories, directories only
            elif c == "..":
                nxt.append(os.path.dirname(d.rstrip("/")) or "/")
            elif any(ch in c for ch in "*?["):
                for e in sorted(os.scandir(d), key=lambda e: e.name):
                    if fnmatch.fnmatchcase(e.name, c):
                        nxt.append(e.path)
            else:
                p = os.path.join(d, c)
                if os.path.lexists(p):
                    nxt.append(p)
        # de-duplicate, keep order
        seen, cur = set(), []
        for p in nxt:
            p = os.path.normpath(p)
            if p not in seen:
                seen.add(p)
                cur.append(p)
    return [os.path.normpath(p) for p in cur]


def expected_files(root, source_dirs, excl_paths=(), incl_suffixes=(), excl_suffixes=()):
    root = os.path.normpath(root)
    excl = set()
    for pat in excl_paths:
        excl.update(expand_glob(pat, root))
    if source_dirs is None:
        dirs = [d for d in _subdirs_recursive(root)
                if any(e.is_file() and suffix_ok(e.name, incl_suffixes) for e in os.scandir(d))]
    else:
        dirs = []
        for pat in source_dirs:
            dirs += [p for p in expand_glob(pat, root) if os.path.isdir(p)]
    out = set()
    for d in dict.fromkeys(dirs):
        if d in excl:
            continue
        for e in os.scandir(d):
            if not e.is_file():
                continue
            p = os.path.normpath(e.path)
            if not suffix_ok(e.name, incl_suffixes) or p in excl:
                continue
            if any(e.name.endswith(x) for x in excl_suffixes):
                continue
            out.add(p)
    return out
