"""A deterministic, normalised battery of queries over a workspace directory, used as the
differential oracle of C10 (history vs fresh server) and C15 (schedules / configurations)."""
from __future__ import annotations

import os
import re

from harness.lsp import pos_params, uri_of

WORD = re.compile(r"[A-Za-z_]\w*")


def positions(files, per_file=40, stride_seed=0):
    """Deterministic sample of identifier positions from {relpath: text}."""
    out = []
    for rel in sorted(files):
        lines = re.split(r"\r\n|\n|\r", files[rel])
        cand = []
        for ln, text in enumerate(lines):
            code = text.split("!")[0]
            for m in WORD.finditer(code):
                cand.append((rel, ln, m.start() + min(1, len(m.group(0)) - 1), m.group(0)))
        if len(cand) > per_file:
            step = len(cand) / per_file
            cand = [cand[int((i * step + stride_seed) % len(cand))] for i in range(per_file)]
        out += cand
    return out


def norm_loc(root, loc):
    if not isinstance(loc, dict):
        return loc
    u = loc.get("uri", "")
    return (u.replace(uri_of(root), "$ROOT"), loc["range"]["start"]["line"], loc["range"]["start"]["character"], loc["range"]["end"]["character"])


def run(srv, root, files, pos, heavy_every=4, open_for_diagnostics=True):
    """-> dict section -> value (JSON-able, order-normalised)."""
    b = {}
    rels = sorted(files)
    # files with a Fortran source suffix only: a header or text file the client has opened is served as a document
    # without being part of the start-up index, that is not a difference between two servers
    b["indexed"] = sorted(os.path.relpath(p, root) for p in srv.s.workspace if p.startswith(root)
                          and os.path.splitext(p)[1].lower() in (".f", ".for", ".f77", ".f90", ".f95", ".f03", ".f08", ".f18", ".ftn", ".fpp", ".f23"))
    diags = {}
    for rel in rels:
        p = os.path.join(root, rel)
        if not os.path.exists(p):
            continue
        outs = srv.did_save(p) if p in srv.s.workspace else srv.did_open(p)
        ds = []
        for o in outs:
            if o.get("method") == "textDocument/publishDiagnostics":
                ds += sorted((d["range"]["start"]["line"], d["range"]["start"]["character"], d.get("severity"), d["message"],
                              tuple(norm_loc(root, ri["location"]) for ri in d.get("relatedInformation", []) or [])) for d in o["params"]["diagnostics"])
            elif o.get("method") == "window/showMessage":
                ds.append(("message", o["params"].get("message", "").replace(root, "$ROOT")))
        diags[rel] = ds
    b["diagnostics"] = diags

    def ask(method, params):
        r, _ = srv.request(method, params)
        return ("error", r["error"].get("message")) if "error" in r else r.get("result")

    syms = {}
    for rel in rels:
        res = ask("textDocument/documentSymbol", {"textDocument": {"uri": uri_of(os.path.join(root, rel))}})
        syms[rel] = sorted(((s["name"], s["kind"], s.get("containerName"), s["location"]["range"]["start"]["line"], s["location"]["range"]["end"]["line"])
                            for s in res), key=str) if isinstance(res, list) else res
    b["documentSymbol"] = syms
    ws = ask("workspace/symbol", {"query": ""})
    b["workspaceSymbol"] = sorted(((s["name"], s["kind"], s.get("containerName"), norm_loc(root, s["location"])) for s in ws), key=str) if isinstance(ws, list) else ws
    d_, h_, r_, c_ = {}, {}, {}, {}
    for i, (rel, ln, ch, word) in enumerate(pos):
        p = os.path.join(root, rel)
        key = f"{rel}:{ln}:{ch}:{word}"
        res = ask("textDocument/definition", pos_params(p, ln, ch))
        d_[key] = norm_loc(root, res) if isinstance(res, dict) else res
        res = ask("textDocument/hover", pos_params(p, ln, ch))
        h_[key] = res["contents"]["value"] if isinstance(res, dict) and isinstance(res.get("contents"), dict) else res
        if i % heavy_every == 0:
            pp = pos_params(p, ln, ch)
            pp["context"] = {"includeDeclaration": True}
            res = ask("textDocument/references", pp)
            r_[key] = sorted((norm_loc(root, x) for x in res), key=str) if isinstance(res, list) else res
            res = ask("textDocument/completion", pos_params(p, ln, ch + 1))
            c_[key] = sorted(((it.get("label"), it.get("kind"), it.get("detail")) for it in res), key=str) if isinstance(res, list) else res
    b["definition"], b["hover"], b["references"], b["completion"] = d_, h_, r_, c_
    return b


def diff(a, b, limit=4):
    """-> list of (section, key, a value, b value)"""
    out = []
    for sec in a:
        if a[sec] == b.get(sec):
            continue
        if isinstance(a[sec], dict) and isinstance(b.get(sec), dict):
            for k in sorted(set(a[sec]) | set(b[sec])):
                if a[sec].get(k, "<absent>") != b[sec].get(k, "<absent>"):
                    out.append((sec, k, a[sec].get(k, "<absent>"), b[sec].get(k, "<absent>")))
                    if len([x for x in out if x[0] == sec]) >= limit:
                        break
        else:
            out.append((sec, "", a[sec], b.get(sec)))
    return out
