"""LSP 3.17 result-shape validators and the range-in-document check (C09, C20, C04...).

validate(method, result) -> list of problems (strings).
ranges_of(result) -> list of (uri or None, range dict, kind) found anywhere in a result.
check_range(lines, rng) -> problem string or None.
"""
from __future__ import annotations

import numbers


def _is_uint(v):
    return isinstance(v, int) and not isinstance(v, bool) and v >= 0


def is_position(p):
    return isinstance(p, dict) and _is_uint(p.get("line")) and _is_uint(p.get("character"))


def is_range(r):
    return isinstance(r, dict) and is_position(r.get("start")) and is_position(r.get("end"))


def is_location(loc):
    return isinstance(loc, dict) and isinstance(loc.get("uri"), str) and is_range(loc.get("range"))


def is_markup(m):
    return (isinstance(m, dict) and m.get("kind") in ("markdown", "plaintext") and isinstance(m.get("value"), str)) or isinstance(m, str)


def v_hover(r):
    if r is None:
        return []
    if not isinstance(r, dict) or "contents" not in r:
        return ["Hover must be an object with 'contents'"]
    c = r["contents"]
    ok = is_markup(c) or (isinstance(c, list) and all(isinstance(x, str) or (isinstance(x, dict) and "language" in x and "value" in x) for x in c))
    out = [] if ok else [f"Hover.contents malformed: {str(c)[:80]}"]
    if "range" in r and not is_range(r["range"]):
        out.append("Hover.range malformed")
    return out


def v_locations(r):
    if r is None:
        return []
    if isinstance(r, dict):
        return [] if is_location(r) else [f"Location malformed: {str(r)[:120]}"]
    if isinstance(r, list):
        bad = [x for x in r if not is_location(x)]
        return [f"Location[] item malformed: {str(bad[0])[:120]}"] if bad else []
    return [f"expected Location | Location[] | null, got {type(r).__name__}"]


def v_highlights(r):
    if r is None:
        return []
    if not isinstance(r, list):
        return ["expected DocumentHighlight[] | null"]
    for x in r:
        if not (isinstance(x, dict) and is_range(x.get("range"))):
            return [f"DocumentHighlight malformed: {str(x)[:120]}"]
    return []


def v_completion(r):
    if r is None:
        return []
    items = r.get("items") if isinstance(r, dict) else r
    if not isinstance(items, list):
        return ["expected CompletionItem[] | CompletionList | null"]
    for it in items:
        if not isinstance(it, dict) or not isinstance(it.get("label"), str) or it.get("label") == "":
            return [f"CompletionItem without a non-empty string label: {str(it)[:120]}"]
        if "kind" in it and not (_is_uint(it["kind"]) and 1 <= it["kind"] <= 25):
            return [f"CompletionItem.kind out of range: {it['kind']!r}"]
        if "insertTextFormat" in it and it["insertTextFormat"] not in (1, 2):
            return ["CompletionItem.insertTextFormat invalid"]
        for k in ("detail", "insertText", "sortText", "filterText"):
            if k in it and not isinstance(it[k], str):
                return [f"CompletionItem.{k} must be a string: {it[k]!r}"]
        if "documentation" in it and not is_markup(it["documentation"]):
            return ["CompletionItem.documentation malformed"]
    return []


def v_signature(r):
    if r is None:
        return []
    if not isinstance(r, dict) or not isinstance(r.get("signatures"), list):
        return ["SignatureHelp.signatures must be a list"]
    for s in r["signatures"]:
        if not isinstance(s, dict) or not isinstance(s.get("label"), str):
            return [f"SignatureInformation.label must be a string: {str(s)[:120]}"]
        if "documentation" in s and not is_markup(s["documentation"]):
            return ["SignatureInformation.documentation malformed"]
        ps = s.get("parameters", [])
        if not isinstance(ps, list):
            return ["SignatureInformation.parameters must be a list"]
        for p in ps:
            if not isinstance(p, dict) or not (isinstance(p.get("label"), str) or (isinstance(p.get("label"), list) and len(p["label"]) == 2)):
                return [f"ParameterInformation.label malformed: {str(p)[:120]}"]
            if "documentation" in p and not is_markup(p["documentation"]):
                return ["ParameterInformation.documentation malformed"]
    for k in ("activeSignature", "activeParameter"):
        if k in r and r[k] is not None and not _is_uint(r[k]):
            return [f"SignatureHelp.{k} must be a non-negative integer: {r[k]!r}"]
    return []


def is_text_edit(e):
    return isinstance(e, dict) and is_range(e.get("range")) and isinstance(e.get("newText"), str)


def v_workspace_edit(r):
    if r is None:
        return []
    if not isinstance(r, dict):
        return ["WorkspaceEdit must be an object"]
    ch = r.get("changes")
    if ch is not None:
        if not isinstance(ch, dict):
            return ["WorkspaceEdit.changes must be an object"]
        for uri, edits in ch.items():
            if not isinstance(uri, str) or not isinstance(edits, list) or not all(is_text_edit(e) for e in edits):
                return [f"WorkspaceEdit.changes[{uri!r}] malformed"]
    return []


def is_diagnostic(d):
    if not (isinstance(d, dict) and is_range(d.get("range")) and isinstance(d.get("message"), str)):
        return False
    if "severity" in d and d["severity"] not in (1, 2, 3, 4):
        return False
    for ri in d.get("relatedInformation", []) or []:
        if not (isinstance(ri, dict) and is_location(ri.get("location")) and isinstance(ri.get("message"), str)):
            return False
    return True


def v_code_actions(r):
    if r is None:
        return []
    if not isinstance(r, list):
        return ["expected (Command | CodeAction)[] | null"]
    for a in r:
        if not isinstance(a, dict) or not isinstance(a.get("title"), str):
            return [f"CodeAction.title must be a string: {str(a)[:120]}"]
        if "diagnostics" in a and not (isinstance(a["diagnostics"], list) and all(is_diagnostic(d) for d in a["diagnostics"])):
            return ["CodeAction.diagnostics malformed"]
        if "edit" in a:
            p = v_workspace_edit(a["edit"])
            if p:
                return p
    return []


def v_symbols(r):
    if r is None:
        return []
    if not isinstance(r, list):
        return ["expected SymbolInformation[] | null"]
    for s in r:
        if not (isinstance(s, dict) and isinstance(s.get("name"), str) and _is_uint(s.get("kind")) and 1 <= s["kind"] <= 26
                and is_location(s.get("location"))):
            return [f"SymbolInformation malformed: {str(s)[:160]}"]
        if "containerName" in s and not isinstance(s["containerName"], str):
            return ["SymbolInformation.containerName must be a string"]
    return []


VALIDATORS = {
    "textDocument/hover": v_hover,
    "textDocument/definition": v_locations,
    "textDocument/implementation": v_locations,
    "textDocument/references": v_locations,
    "textDocument/documentHighlight": v_highlights,
    "textDocument/rename": v_workspace_edit,
    "textDocument/signatureHelp": v_signature,
    "textDocument/completion": v_completion,
    "textDocument/codeAction": v_code_actions,
    "textDocument/documentSymbol": v_symbols,
    "workspace/symbol": v_symbols,
}


def validate(method, result):
    v = VALIDATORS.get(method)
    return v(result) if v else []


def ranges_of(obj, uri=None, out=None, kind=""):
    """Collect every (uri, range) reachable in a result / params structure."""
    if out is None:
        out = []
    if isinstance(obj, dict):
        if "uri" in obj and isinstance(obj.get("range"), dict):
            out.append((obj["uri"], obj["range"], kind or "location"))
        elif isinstance(obj.get("range"), dict) and "start" in obj["range"]:
            out.append((uri, obj["range"], kind or ("edit" if "newText" in obj else "range")))
        for k, v in obj.items():
            if k == "range":
                continue
            if k == "changes" and isinstance(v, dict):
                for u, edits in v.items():
                    ranges_of(edits, u, out, "edit")
            elif k == "location":
                ranges_of(v, uri, out, "location")
            else:
                ranges_of(v, uri, out, kind)
    elif isinstance(obj, list):
        for x in obj:
            ranges_of(x, uri, out, kind)
    return out


def check_range(lines, rng):
    """lines: the target document as a list of lines.  -> problem string or None."""
    if not is_range(rng):
        return f"not a range: {str(rng)[:100]}"
    s, e = rng["start"], rng["end"]
    n = len(lines)
    for nm, p in (("start", s), ("end", e)):
        if not (0 <= p["line"] < n):
            return f"{nm}.line {p['line']} outside document of {n} lines"
        if not (0 <= p["character"] <= len(lines[p["line"]])):
            return f"{nm}.character {p['character']} beyond line {p['line']} of length {len(lines[p['line']])}"
    if (s["line"], s["character"]) > (e["line"], e["character"]):
        return f"start {s} after end {e}"
    return None
