"""Valid-Fortran idiom modules: name re-use that the language allows and a diagnostics pass must not flag.

A module is assembled from drawn idioms; the specification-part blocks and the procedure blocks of
all chosen idioms are emitted in a drawn order (a random permutation made to respect each block's
"after" constraints, e.g. a type must be defined before a variable of that type is declared).
Every assembled text is checked with gfortran by the caller (cheap: one file).

Each idiom: {"id", "spec": [(block id, text, after-ids)], "procs": [(block id, text)], "uses": text or None}
Texts use {n} for the idiom's drawn name stem.
"""
from __future__ import annotations

from hypothesis import strategies as st

IDIOMS = [
    # structure-constructor overload: a generic interface named like a derived type (either may come first)
    {"id": "ctor", "spec": [("ctor_i", "interface {n}\n  module procedure mk_{n}\nend interface {n}", []),
                            ("ctor_t", "type :: {n}\n  real :: x_{n}\nend type {n}", [])],
     "procs": [("ctor_f", "function mk_{n}(v) result(p)\n  real, intent(in) :: v\n  type({n}) :: p\n  p%x_{n} = v\nend function mk_{n}")]},
    # a generic named like one of its specific procedures
    {"id": "gen_like_specific", "spec": [("gls_i", "interface {n}\n  module procedure {n}, {n}_r\nend interface {n}", [])],
     "procs": [("gls_f", "function {n}(a)\n  integer, intent(in) :: a\n  integer :: {n}\n  {n} = a\nend function {n}"),
               ("gls_g", "function {n}_r(a)\n  real, intent(in) :: a\n  real :: {n}_r\n  {n}_r = a\nend function {n}_r")]},
    # a component named like a module variable, and a variable of that type
    {"id": "comp_like_var", "spec": [("clv_v", "integer :: {n}", []), ("clv_t", "type :: t_{n}\n  integer :: {n}\nend type t_{n}", []),
                                     ("clv_o", "type(t_{n}) :: o_{n}", ["clv_t"])],
     "procs": [("clv_s", "subroutine s_{n}()\n  o_{n}%{n} = {n}\nend subroutine s_{n}")]},
    # the same local name in two procedures, and a dummy named like a local of the other one
    {"id": "locals", "spec": [],
     "procs": [("loc_a", "subroutine a_{n}(w_{n})\n  integer, intent(in) :: w_{n}\n  integer :: {n}\n  {n} = w_{n}\nend subroutine a_{n}"),
               ("loc_b", "subroutine b_{n}({n})\n  integer, intent(out) :: {n}\n  integer :: w_{n}\n  w_{n} = 1\n  {n} = w_{n}\nend subroutine b_{n}")]},
    # explicit interface body whose dummy names repeat module-level names (an interface body is its own scope)
    {"id": "iface_body", "spec": [("ifb_v", "real :: {n}", []),
                                  ("ifb_i", "interface\n  subroutine ext_{n}({n}, other)\n    real, intent(in) :: {n}\n    integer, intent(out) :: other\n  end subroutine ext_{n}\nend interface", [])],
     "procs": [("ifb_s", "subroutine use_{n}()\n  integer :: other\n  call ext_{n}({n}, other)\nend subroutine use_{n}")]},
    # BLOCK construct re-declaring an outer name, nested twice
    {"id": "block_shadow", "spec": [],
     "procs": [("blk_s", "subroutine k_{n}()\n  integer :: {n}\n  {n} = 1\n  block\n    real :: {n}\n    {n} = 2.0\n    block\n      integer :: {n}\n      {n} = 3\n    end block\n  end block\nend subroutine k_{n}")]},
    # type-bound procedure named like its implementation, generic binding named like a module procedure
    {"id": "binding_same_name", "spec": [("bsn_t", "type :: b_{n}\n  integer :: v\ncontains\n  procedure :: {n}\n  procedure :: put_{n}\n  generic :: set => put_{n}\nend type b_{n}", [])],
     "procs": [("bsn_p", "subroutine {n}(self)\n  class(b_{n}), intent(inout) :: self\n  self%v = 0\nend subroutine {n}"),
               ("bsn_q", "subroutine put_{n}(self, v)\n  class(b_{n}), intent(inout) :: self\n  integer, intent(in) :: v\n  self%v = v\nend subroutine put_{n}")]},
    # a generic with a module procedure and a result variable / function with RESULT named like another module's entity
    {"id": "result_names", "spec": [("res_i", "interface r_{n}\n  module procedure r_{n}_i\nend interface r_{n}", [])],
     "procs": [("res_f", "function r_{n}_i(a) result({n})\n  integer, intent(in) :: a\n  integer :: {n}\n  {n} = a\nend function r_{n}_i"),
               ("res_g", "function q_{n}() result({n})\n  real :: {n}\n  {n} = 1.0\nend function q_{n}")]},
    # PUBLIC/PRIVATE statements naming an entity declared later; a private type with a public constructor-like generic
    {"id": "vis_before_decl", "spec": [("vis_s", "public :: p_{n}\nprivate :: h_{n}", []), ("vis_d", "integer :: p_{n}\ninteger :: h_{n}", [])],
     "procs": [("vis_p", "subroutine z_{n}()\n  p_{n} = h_{n}\nend subroutine z_{n}")]},
    # enumerators and a parameter used in a later declaration; a variable named like an intrinsic
    {"id": "enum_param", "spec": [("enu_e", "enum, bind(c)\n  enumerator :: e_{n}_a = 1, e_{n}_b\nend enum", []),
                                  ("enu_p", "integer, parameter :: n_{n} = 3", []), ("enu_a", "real :: arr_{n}(n_{n})\nreal :: sum", ["enu_p"])],
     "procs": [("enu_s", "subroutine y_{n}()\n  sum = arr_{n}(e_{n}_a) + arr_{n}(e_{n}_b)\nend subroutine y_{n}")]},
    # abstract interface + procedure pointer component + deferred binding in an abstract type
    {"id": "abstract", "spec": [("abs_i", "abstract interface\n  subroutine cb_{n}(a)\n    integer, intent(in) :: a\n  end subroutine cb_{n}\nend interface", []),
                                ("abs_t", "type :: h_{n}_t\n  procedure(cb_{n}), pointer, nopass :: cb => null()\nend type h_{n}_t", ["abs_i"])],
     "procs": [("abs_s", "subroutine run_{n}(h)\n  type(h_{n}_t), intent(in) :: h\n  if (associated(h%cb)) call h%cb(1)\nend subroutine run_{n}")]},
    # operator and assignment interfaces, END INTERFACE repeating the generic spec
    {"id": "operators", "spec": [("ops_t", "type :: v_{n}\n  real :: c\nend type v_{n}", []),
                                 ("ops_o", "interface operator(+)\n  module procedure add_{n}\nend interface operator(+)", []),
                                 ("ops_a", "interface assignment(=)\n  module procedure asg_{n}\nend interface assignment(=)", [])],
     "procs": [("ops_f", "function add_{n}(a, b) result(c)\n  type(v_{n}), intent(in) :: a, b\n  type(v_{n}) :: c\n  c%c = a%c + b%c\nend function add_{n}"),
               ("ops_s", "subroutine asg_{n}(a, b)\n  type(v_{n}), intent(out) :: a\n  real, intent(in) :: b\n  a%c = b\nend subroutine asg_{n}")]},
    # internal procedures of two module procedures sharing a name; host-associated variable used inside
    {"id": "internal_same_name", "spec": [],
     "procs": [("int_a", "subroutine oa_{n}()\n  integer :: {n}\n  call helper()\ncontains\n  subroutine helper()\n    {n} = 1\n  end subroutine helper\nend subroutine oa_{n}"),
               ("int_b", "subroutine ob_{n}()\n  real :: {n}\n  call helper()\ncontains\n  subroutine helper()\n    {n} = 2.0\n  end subroutine helper\nend subroutine ob_{n}")]},
    # the F77 idiom 'real f' / 'external f' for a dummy procedure, in two procedures and in another letter case
    {"id": "external_idiom", "spec": [],
     "procs": [("ext_a", "subroutine ea_{n}(fx_{n}, r)\n  real fx_{n}\n  external fx_{n}\n  real, intent(out) :: r\n  r = fx_{n}(1.0)\nend subroutine ea_{n}"),
               ("ext_b", "subroutine eb_{n}(fx_{n}, r)\n  real :: fx_{n}\n  external FX_{n}\n  real, intent(out) :: r\n  r = fx_{n}(2.0)\nend subroutine eb_{n}")]},
    # named constructs re-using one construct name in two procedures and a SELECT TYPE with associate-name
    {"id": "constructs", "spec": [("con_t", "type :: s_{n}\n  integer :: i\nend type s_{n}", [])],
     "procs": [("con_a", "subroutine ca_{n}(x)\n  class(*), intent(in) :: x\n  integer :: j\n  lp: do j = 1, 2\n    select type (y => x)\n    type is (s_{n})\n      if (y%i > j) exit lp\n    class default\n      cycle lp\n    end select\n  end do lp\nend subroutine ca_{n}"),
               ("con_b", "subroutine cb2_{n}()\n  integer :: j\n  lp: do j = 1, 2\n    chk: if (j > 1) then\n      exit lp\n    end if chk\n  end do lp\nend subroutine cb2_{n}")]},
    # a procedure pointer declared with a generic interface that is named like one of its specifics
    {"id": "procptr_generic", "spec": [("ppg_i", "interface g_{n}\n  module procedure g_{n}, g_{n}_r\nend interface g_{n}", []),
                                       ("ppg_p", "procedure(g_{n}), pointer :: pp_{n} => null()", ["ppg_i"])],
     "procs": [("ppg_a", "subroutine g_{n}(a)\n  integer, intent(in) :: a\nend subroutine g_{n}"),
               ("ppg_b", "subroutine g_{n}_r(a)\n  real, intent(in) :: a\nend subroutine g_{n}_r"),
               ("ppg_c", "subroutine cp_{n}()\n  if (associated(pp_{n})) call pp_{n}(1)\nend subroutine cp_{n}")]},
    # procedure pointers with an abstract interface: module variable, component, dummy procedure and local pointer
    {"id": "procptr_abstract", "spec": [("ppa_i", "abstract interface\n  function fn_{n}(a) result(r)\n    real, intent(in) :: a\n    real :: r\n  end function fn_{n}\nend interface", []),
                                        ("ppa_p", "procedure(fn_{n}), pointer :: fp_{n} => null()", ["ppa_i"]),
                                        ("ppa_t", "type :: hold_{n}\n  procedure(fn_{n}), pointer, nopass :: f => null()\nend type hold_{n}", ["ppa_i"])],
     "procs": [("ppa_f", "function ap_{n}(f, v) result(r)\n  procedure(fn_{n}) :: f\n  procedure(fn_{n}), pointer :: q\n  real, intent(in) :: v\n  real :: r\n  type(hold_{n}) :: h\n  q => f\n  h%f => f\n  fp_{n} => q\n  r = f(v) + q(v) + fp_{n}(v) + h%f(v)\nend function ap_{n}")]},
]

STEMS = ["point", "norm", "vec", "item", "cell", "node", "val"]


def _order(draw, blocks):
    """A drawn permutation of blocks [(id, text, after)] that respects the 'after' constraints."""
    perm = list(draw(st.permutations(blocks)))
    out, placed = [], set()
    while perm:
        for i, b in enumerate(perm):
            if all(a in placed for a in (b[2] if len(b) > 2 else [])):
                out.append(b)
                placed.add(b[0])
                del perm[i]
                break
        else:
            raise AssertionError("cyclic 'after' constraints")
    return out


@st.composite
def idiom_module_st(draw, index=0):
    k = draw(st.integers(1, 4))
    chosen = draw(st.lists(st.sampled_from(IDIOMS), min_size=k, max_size=k, unique_by=lambda d: d["id"]))
    stems = list(draw(st.permutations(STEMS)))
    spec, procs, ids = [], [], []
    for i, idi in enumerate(chosen):
        n = stems[i]
        ids.append(idi["id"])
        spec += [(b[0], b[1].format(n=n), b[2]) for b in idi["spec"]]
        procs += [(b[0], b[1].format(n=n), []) for b in idi["procs"]]
    spec = _order(draw, spec)
    procs = _order(draw, procs)
    lines = [f"module m_idi{index}", "  implicit none"]
    if draw(st.booleans()) and "vis_before_decl" not in ids:
        lines.append("  private")
    for _, text, _ in spec:
        lines += ["  " + l for l in text.split("\n")]
    joined = False
    if procs:
        # 'contains; subroutine s()' on one line is as valid as two lines
        joined = draw(st.integers(0, 3)) == 0
        first = True
        if not joined:
            lines.append("contains")
        for _, text, _ in procs:
            tl = text.split("\n")
            if joined and first:
                lines.append("contains; " + tl[0])
                tl = tl[1:]
            first = False
            lines += ["  " + l for l in tl]
    lines.append(f"end module m_idi{index}")
    return {"text": "\n".join(lines) + "\n", "idioms": ids, "order": [b[0] for b in spec] + [b[0] for b in procs] + (["contains-joined"] if joined else [])}
