"""Mutation operators and statement-soup generators over Fortran source text (Hypothesis).

Used by C03 (indexing total on any text), C09 (positional requests on mutated documents),
C01 (documents whose handlers really fail) and C17.
"""
from __future__ import annotations

import functools
import os

from hypothesis import strategies as st

HERE = os.path.dirname(os.path.dirname(os.path.abspath(__file__)))
CORPUS_DIR = os.path.join(HERE, "corpus", "src")


@functools.lru_cache(maxsize=None)
def corpus():
    out = []
    for fn in sorted(os.listdir(CORPUS_DIR)):
        with open(os.path.join(CORPUS_DIR, fn), encoding="utf-8", errors="replace") as f:
            out.append((fn, f.read()))
    extra = os.path.join(HERE, "corpus", "extra")
    if os.path.isdir(extra):
        for fn in sorted(os.listdir(extra)):
            with open(os.path.join(extra, fn), encoding="utf-8", errors="replace") as f:
                out.append(("extra__" + fn, f.read()))
    return out


TOKENS = [
    "procedure", "procedure ::", "procedure(", "module procedure", "module", "submodule (", "program", "subroutine",
    "function", "end", "end if", "enddo", "end subroutine", "end module", "end function", "end type", "end interface",
    "contains", "implicit none", "implicit", "use ", "use, intrinsic ::", ", only:", "import", "import, none", "include '",
    "interface", "abstract interface", "generic ::", "type", "type,", "type(", "class(", "type is (", "class default",
    "class is (", "select type (", "select case (", "case (", "case default", "associate (", "block", "do", "do 10 i=1,2",
    "10 continue", "do while (", "where (", "elsewhere", "if (", ") then", "else if", "else", "forall (", "critical",
    "enum, bind(c)", "enumerator ::", "integer", "real(8)", "character(len=", "character*(", "integer(kind=", "logical",
    "double precision", "complex", ", dimension(", ", intent(in)", ", parameter", ", pointer", ", allocatable",
    ", optional", ", external", ", extends(", ", abstract", ", public", ", private", ", deferred", ", nopass", ", pass(",
    "public", "private", "::", "=>", "=", "==", "%", "(", ")", "(/", "/)", "[", "]", ",", ";", ":", "&", "!", "!>", "!!",
    "!<", "!$omp", "'", '"', "''", "\\", "\\g<1>", "\\1", "\\", "*", "**", "+", "-", "/", ".and.", ".true.", "1.0d0", "42",
    "result(", "bind(c)", "recursive", "pure", "elemental", "impure", "call ", "print *,", "write(*,*)", "null()",
    "#define", "#define X", "#define F(a,b)", "#undef", "#if", "#if defined(", "#ifdef", "#ifndef", "#elif", "#else",
    "#endif", "#include \"", "#include <", "# define", "defined", "&&", "||", "!=", "\t", " ", "  ", "      ", "c", "C",
    "*", "d", "a", "x", "X", "F(1,2)", "self", "this%", "val",
]

token_st = st.sampled_from(TOKENS)
junk_st = st.one_of(
    token_st,
    st.text(alphabet=st.characters(blacklist_categories=("Cs",)), max_size=4),
    st.text(alphabet=st.sampled_from(list("()'\"&!#\\;:=%,* \t\r\n\x0c\x00 é")), max_size=5),
)

# mutation operators: (name, args) tuples kept as plain data so that cases are replayable


@st.composite
def mutation_st(draw):
    op = draw(st.sampled_from(["trunc", "trunc", "del_line", "dup_line", "swap_lines", "splice", "splice", "splice",
                               "insert_line", "del_span", "replace_tok", "join_lines", "case_flip", "indent"]))
    a = draw(st.integers(0, 10**6))
    b = draw(st.integers(0, 10**6))
    tok = draw(junk_st) if op in ("splice", "insert_line", "replace_tok") else ""
    return [op, a, b, tok]


def apply_mutation(text: str, m) -> str:
    op, a, b, tok = m
    if op == "trunc":
        return text[: a % (len(text) + 1)]
    if op == "splice":
        i = a % (len(text) + 1)
        return text[:i] + tok + text[i:]
    if op == "del_span":
        i = a % (len(text) + 1)
        return text[:i] + text[i + 1 + b % 12 :]
    lines = text.split("\n")
    n = len(lines)
    i, j = a % n, b % n
    if op == "del_line":
        del lines[i]
    elif op == "dup_line":
        lines.insert(i, lines[i])
    elif op == "swap_lines":
        lines[i], lines[j] = lines[j], lines[i]
    elif op == "insert_line":
        lines.insert(i, tok)
    elif op == "join_lines":
        if i + 1 < n:
            lines[i : i + 2] = [lines[i] + lines[i + 1]]
    elif op == "replace_tok":
        words = lines[i].split(" ")
        if words:
            words[b % len(words)] = tok
        lines[i] = " ".join(words)
    elif op == "case_flip":
        lines[i] = lines[i].swapcase()
    elif op == "indent":
        lines[i] = " " * (b % 8) + lines[i].lstrip()
    return "\n".join(lines)


def apply_mutations(text: str, muts) -> str:
    for m in muts:
        text = apply_mutation(text, m)
    return text


def mutated_case_st(max_muts=6, seeds=None):
    """-> {"seed": name, "muts": [...]}; resolve with resolve_case()."""
    names = [n for n, _ in corpus()] if seeds is None else seeds
    return st.fixed_dictionaries({"seed": st.sampled_from(names), "muts": st.lists(mutation_st(), min_size=1, max_size=max_muts)})


def seed_text(name: str) -> str:
    for n, t in corpus():
        if n == name:
            return t
    raise KeyError(name)


def resolve_case(case) -> str:
    if "text" in case:
        return case["text"]
    return apply_mutations(seed_text(case["seed"]), case["muts"])


# ------------------------------------------------------------------ statement soup
# one or more templates per reader in def_tests, plus every preprocessor directive; each can be
# cut at a random token boundary and they are emitted in random order, i.e. outside any scope
NAMES = ["a", "b", "foo", "bar", "t1", "m1", "x", "n", "self", "val"]
TEMPLATES = [
    "integer :: {n}", "integer, parameter :: {n} = 3", "real(kind=8), dimension(3,3), intent(in) :: {n}, {m}",
    "character(len=*), optional :: {n}", "character*(*) {n}*(5)", "type({n}) :: {m}", "class({n}), pointer :: {m} => null()",
    "procedure({n}), pointer :: {m} => {n}", "procedure :: {n}", "procedure :: {n} => {m}", "procedure(iface), deferred :: {n}",
    "procedure, nopass :: {n}", "generic :: {n} => {m}, foo", "generic, public :: assignment(=) => {n}",
    "subroutine {n}({m}, x)", "subroutine {n}", "end subroutine {n}", "end subroutine", "recursive pure subroutine {n}()",
    "function {n}({m}) result(r)", "integer function {n}(x)", "pure elemental real(8) function {n}(x) result(y)",
    "end function", "end function {n}", "module {n}", "end module {n}", "end module", "module procedure {n}",
    "module procedure {n}, {m}", "module subroutine {n}(x)", "module function {n}(x) result(r)", "submodule ({n}) {m}",
    "submodule ({n}:{m}) foo", "end submodule", "end procedure", "program {n}", "end program {n}", "end program",
    "block", "{n}: block", "end block", "end block {n}", "do {n} = 1, 10", "do", "do while (x < 3)", "do 10 {n}=1,3",
    "10 continue", "20 {n} = 1", "end do", "enddo", "where ({n} > 0)", "where ({n} > 0) {m} = 1", "elsewhere", "end where",
    "if ({n}) then", "if ({n}) {m} = 1", "else if ({n}) then", "else", "end if", "endif", "associate ({n} => {m}, x => y%z)",
    "associate ({n})", "end associate", "select case ({n})", "case (1)", "case default", "select type ({n} => {m})",
    "select type ({n})", "type is (integer)", "type is ({n})", "class is ({n})", "class default", "end select",
    "type {n}", "type :: {n}", "type, extends({m}) :: {n}", "type, abstract, public :: {n}", "type, bind(c) :: {n}",
    "end type", "end type {n}", "enum, bind(c)", "enumerator :: {n} = 1, {m}", "end enum", "use {n}", "use {n}, only: {m}",
    "use {n}, only: {m} => foo, bar", "use, intrinsic :: iso_fortran_env, only: {n} => int32", "use :: {n}",
    "import", "import :: {n}", "import, none", "import, all", "import, only: {n}, {m}", "import {n}",
    "interface", "interface {n}", "abstract interface", "interface operator(+)", "interface assignment(=)",
    "end interface", "end interface {n}", "include '{n}.inc'", 'include "{n}.h"', "public", "private", "public :: {n}, {m}",
    "private {n}", "implicit none", "implicit real(a-h)", "implicit none (type, external)", "contains", "end",
    "forall (i=1:3) {n}(i) = 0", "forall (i=1:3)", "end forall", "critical", "end critical", "call {n}({m}, x=1)",
    "{n} = {m} + {n}", "{n}%{m}%x = 1", "print *, '{n}', \"{m}\"", "x = 'it''s' // \"a\"\"b\" ! {n}", "external {n}",
    "external :: {n}", "real {n}", "data {n} /1/", "common /blk/ {n}", "!> doc for {n}", "!! more", "!< trailing",
    "integer :: {n} !< doc", "!$omp parallel do", "x = 1; y = 2; end", "a = b &", "  & + c", "&", "call s( &",
    "implicit &", "  none", "contains &", "conta&", "  &ins", "private &", "  :: {n}", "use &", "  {n}, only: &", "  & {m}", "end &", "  subroutine {n}",
    "#define {N}", "#define {N} 1", "#define {N} {n} + 1 \\", "#define {N}(a,b) a+b", "#define {N}(a) ((a)*\\", "#undef {N}",
    "#if {N}", "#if defined({N})", "#if defined {N} && !defined(FOO)", "#if ({N} > 1) || (defined FOO)", "#if",
    "#ifdef {N}", "#ifndef {N}", "#ifdef", "#elif {N}", "#elif defined({N})", "#elif", "#else", "#endif",
    '#include "{n}.h"', "#include <{n}.h>", "#include", "# define {N} 2", "  #define {N}", "x = {N}", "x = {N}(1, 2)",
    "#error no", "#pragma once", "#line 3", "#define {N} a\\g<1>b", "#define {N} \\1", "#define {N}(a) a\\2 \\",
    "#define {N} [(*+?", "#define {N}(a+,b) a", "#define {N}( a , b ) (a)+(b)", "x = {N}", "integer :: {N}",
    "procedure, pass({n}) :: {m} => foo", "procedure(foo), pass({n}), pointer :: {m} => bar", "procedure, pass :: {n}",
    "integer, pointer :: {n} => {m}", "class(*), pointer :: {n} => {n}", "type({n}), pointer :: {n} => null()",
]
MACROS = ["X", "FOO", "F", "NAME", "A1", "_B"]


@st.composite
def soup_line_st(draw):
    t = draw(st.sampled_from(TEMPLATES))
    s = t.replace("{n}", draw(st.sampled_from(NAMES))).replace("{m}", draw(st.sampled_from(NAMES))).replace(
        "{N}", draw(st.sampled_from(MACROS)))
    k = draw(st.integers(0, 9))
    if k == 0:  # cut mid statement
        s = s[: draw(st.integers(0, len(s)))]
    elif k == 1:
        i = draw(st.integers(0, len(s)))
        s = s[:i] + draw(junk_st) + s[i:]
    elif k == 2:
        s = s.upper()
    ind = draw(st.sampled_from(["", "", "  ", "      ", "\t"]))
    return ind + s


@st.composite
def soup_st(draw, max_lines=25):
    lines = draw(st.lists(soup_line_st(), min_size=1, max_size=max_lines))
    sep = draw(st.sampled_from(["\n", "\n", "\n", "\r\n"]))
    return {"text": sep.join(lines) + (sep if draw(st.booleans()) else "")}


# ------------------------------------------------------------------ preprocessor story lines
PP_EVENT_KINDS = {
    "define-object": ["#define {N} 1", "#define {N} {n}_expanded + 2", "#define {N}", "#define {N} {M}"],
    "define-function": ["#define {N}(a) ((a) + 1)", "#define {N}(a,b) a*b", "#define {N}( a , b ) (a)+(b)"],
    "undef": ["#undef {N}"],
    "use-object": ["  x = {N}", "  w = {N} + {N}", "  integer :: v_{N}"],
    "use-function": ["  y = {N}(1)", "  z = {N}(p, q) + {N}", "  call s({N}, {N}(2))"],
    "cond-open": ["#ifdef {N}", "#ifndef {N}", "#if {N} > 0", "#if defined({N}) && {N}"],
    "cond-mid": ["#elif {N}", "#else", "#elif defined({N})"],
    "cond-close": ["#endif"],
    "include": ['#include "{n}.h"', '#include "{m}.h"', "#include '{n}.h'"],
    "code": ["  integer :: {n}", "  end if", "contains"],
}


@st.composite
def pp_story_st(draw, max_events=14):
    """A sequence of preprocessor events, mostly about one macro name: definitions of both kinds, #undef, re-definition,
    uses of either kind and conditionals, in any order (so also: use before definition, redefinition with the other
    kind, a macro defined as another one, unbalanced conditionals)."""
    n1, n2 = draw(st.sampled_from([("F", "G"), ("MAC", "OTHER"), ("N_", "N_X")]))
    kinds = sorted(PP_EVENT_KINDS)
    evs = draw(st.lists(st.tuples(st.sampled_from(kinds), st.integers(0, 3), st.integers(0, 3)), min_size=3, max_size=max_events))
    lines = [draw(st.sampled_from(["program p", "module m", "subroutine s(x)", ""]))]
    for kind, variant, other in evs:
        a, b = (n2, n1) if other == 0 else (n1, n2)
        tmpl = PP_EVENT_KINDS[kind][variant % len(PP_EVENT_KINDS[kind])]
        lines.append(tmpl.replace("{N}", a).replace("{M}", b).replace("{n}", a.lower()).replace("{m}", b.lower()))
    lines.append(draw(st.sampled_from(["end", "end program p", "end module m", ""])))
    return {"text": "\n".join(lines) + "\n"}


# ------------------------------------------------------------------ repetition stress (regex backtracking, deep nesting)
STRESS_PREFIX = ["x = F(", "call s(", "integer :: a(", "use m, only: ", "type(", "print *, ", "if (", "#if ", "#define G(", "a%b%", "character(len=",
                 "x = '", "  &", "interface operator(", "procedure(", "class(", "integer, dimension(", "data a /", "real(kind=", "select case (",
                 "associate (a => ", "x = [", "write(*,'(", "subroutine s(", "function f(", "enum, bind(", "import :: ", "public :: ", "#include \"",
                 "10 format(", "where (", "do i = ", "x = F(G(", "end ", "contains ", "module procedure "]
STRESS_UNIT = ["1,", "a,", "(", ")", "a%", "'", '"', "&", " ", "a=>b,", "(1,", "=>", "::", "!", ";", "\\", "defined(", "||", "x y ", "a(", "F(", "1+", "=",
               ",", "a_", "%", "//", "(/", "[", "::a", " ,", "''", "&&", "#", "\t"]


@st.composite
def stress_st(draw):
    """A few macro definitions with many parameters, then lines made of a statement prefix followed by one or two short units
    repeated many times, closed or left open: the shape that exposes super-linear pattern matching."""
    lines = []
    for name in draw(st.lists(st.sampled_from(["F", "G"]), max_size=2, unique=True)):
        k = draw(st.integers(1, 12))
        lines.append(f"#define {name}(" + ",".join(f"p{i}" for i in range(k)) + ") p0")
    lines.append(draw(st.sampled_from(["program p", "module m", "subroutine s(a)", ""])))
    for _ in range(draw(st.integers(1, 3))):
        pre = draw(st.sampled_from(STRESS_PREFIX))
        u1, u2 = draw(st.sampled_from(STRESS_UNIT)), draw(st.sampled_from(STRESS_UNIT))
        n = draw(st.sampled_from([8, 20, 45, 90, 200]))
        body = (u1 * n) if draw(st.booleans()) else ((u1 + u2) * (n // 2))
        lines.append(pre + body + draw(st.sampled_from(["", ")", "')", " then", " &", "]"])))
    lines.append(draw(st.sampled_from(["end", "end program p", ""])))
    return {"text": "\n".join(lines) + "\n"}
