# Injected (via PYTHONPATH) into `python -m fortls` process trees by the C17 check.
import os
import sys

if os.environ.get("VERIF_AUDIT_LOG"):
    here = os.path.dirname(os.path.dirname(os.path.dirname(os.path.abspath(__file__))))
    sys.path.insert(0, here)
    try:
        from harness import audithook

        audithook.install()
    finally:
        sys.path.remove(here)
