"""Delta debugging (ddmin) over sequences, with a time budget; used to minimise text inputs
after a Hypothesis/enumeration search found a failing case."""
import time


def ddmin(items, fails, budget_s=30.0):
    """Smallest sub-sequence (1-minimal within budget) of `items` for which fails(sub) is True."""
    t0 = time.time()
    items = list(items)
    n = 2
    while len(items) >= 2:
        if time.time() - t0 > budget_s:
            break
        chunk = max(1, len(items) // n)
        subsets = [items[i : i + chunk] for i in range(0, len(items), chunk)]
        reduced = False
        for i in range(len(subsets)):
            if time.time() - t0 > budget_s:
                break
            comp = [x for j, s in enumerate(subsets) if j != i for x in s]
            if comp and fails(comp):
                items = comp
                n = max(n - 1, 2)
                reduced = True
                break
        if not reduced:
            if n >= len(items):
                break
            n = min(len(items), n * 2)
    return items


def minimize_text(text, fails, budget_s=30.0):
    """Line-level then character-level ddmin of a text."""
    t0 = time.time()
    lines = text.split("\n")
    if len(lines) > 1:
        lines = ddmin(lines, lambda ls: fails("\n".join(ls)), budget_s * 0.6)
    text2 = "\n".join(lines)
    rest = budget_s - (time.time() - t0)
    if rest > 1 and len(text2) <= 400:
        chars = ddmin(list(text2), lambda cs: fails("".join(cs)), rest)
        text2 = "".join(chars)
    return text2 if fails(text2) else text
