"""Runtime monitor for C17: a sys.addaudithook that records code evaluation, process spawning,
network and file-mutation events together with a short Python stack.

Installed either in-process (install(); events in EVENTS) or, for real `python -m fortls`
process trees, through harness/audit/sitecustomize.py on PYTHONPATH (events appended as JSON
lines to $VERIF_AUDIT_LOG; forked Pool workers inherit the hook).
"""
import json
import os
import sys
import traceback

EVENTS = []
_installed = False
_busy = False

WATCH_PREFIX = ("os.system", "subprocess.Popen", "os.posix_spawn", "os.exec", "os.spawn", "os.forkpty",
                "os.remove", "os.rename", "os.mkdir", "os.rmdir", "os.chmod", "os.chown", "os.truncate", "os.link",
                "os.symlink", "os.putenv", "shutil.", "socket.connect", "socket.bind", "socket.getaddrinfo",
                "ctypes.dlopen", "urllib.Request", "pty.spawn", "os.startfile", "webbrowser.open")


def _stack():
    out = []
    for fr in traceback.extract_stack():
        fn = fr.filename.replace("\\", "/")
        if "/fortls/" in fn and "/harness/" not in fn:
            out.append(f"{fn.split('/fortls/', 1)[1]}:{fr.name}:{(fr.line or '').strip()[:80]}")
    return out[-4:]


def _record(ev):
    log = os.environ.get("VERIF_AUDIT_LOG")
    if log:
        try:
            fd = os.open(log, os.O_WRONLY | os.O_APPEND | os.O_CREAT, 0o644)
            os.write(fd, (json.dumps(ev, default=str) + "\n").encode())
            os.close(fd)
        except OSError:
            pass
    else:
        EVENTS.append(ev)


def _hook(event, args):
    global _busy
    if _busy:
        return
    try:
        _busy = True
        if event == "compile":
            src = args[0]
            if src is None:
                return
            if isinstance(src, bytes):
                if len(src) > 4000:
                    return  # module sources compiled by the import system
                src = src.decode("utf-8", "replace")
            if not isinstance(src, str) or len(src) > 4000:
                return
            fname = str(args[1]) if len(args) > 1 else ""
            if fname.endswith(".py") or fname.startswith("<frozen"):
                return
            _record({"event": "compile", "source": src[:400], "filename": fname, "stack": _stack()})
        elif event == "exec":
            code = args[0]
            fname = getattr(code, "co_filename", "")
            if fname in ("<string>", "<stdin>") or not (fname.endswith(".py") or fname.startswith("<frozen")):
                _record({"event": "exec", "filename": fname, "names": list(getattr(code, "co_names", ()))[:20],
                         "consts": [repr(c)[:80] for c in getattr(code, "co_consts", ())][:20], "stack": _stack()})
        elif event == "open":
            path, mode = args[0], args[1]
            flags = args[2] if len(args) > 2 else 0
            writing = (isinstance(mode, str) and any(c in mode for c in "wax+")) or (
                mode is None and isinstance(flags, int) and flags & (os.O_WRONLY | os.O_RDWR | os.O_CREAT | os.O_TRUNC | os.O_APPEND))
            if writing:
                if isinstance(path, int):
                    return
                p = os.fsdecode(path) if isinstance(path, (bytes, str)) else str(path)
                if p == os.environ.get("VERIF_AUDIT_LOG") or p == os.devnull:
                    return
                _record({"event": "open-for-write", "path": p, "mode": str(mode), "stack": _stack()})
        elif event.startswith(WATCH_PREFIX):
            _record({"event": event, "args": [repr(a)[:200] for a in args][:4], "stack": _stack()})
    except Exception:
        pass
    finally:
        _busy = False


def install():
    global _installed
    if not _installed:
        sys.addaudithook(_hook)
        _installed = True


def drain():
    out = list(EVENTS)
    EVENTS.clear()
    return out
