"""Runner: tiers, seeds, sharding over processes, known-finding handling, evidence, replay.

A check module (checks/cXX.py) provides
    PROPERTY, LEVEL, RULE, ASSUMPTIONS (list), SHARDS = {"quick": n, "thorough": n}
    run(ctx)            explore; report through ctx.case(...) / ctx.check(...) / ctx.hyp(...)
    replay(ctx, case)   -> list[Disc] for one saved case (no Hypothesis involved)
Every random choice is made by Hypothesis from ctx.seed (= VERIF_SEED*1000 + shard).
"""
from __future__ import annotations

import argparse
import collections
import hashlib
import importlib
import json
import os
import shutil
import subprocess
import sys
import tempfile
import time
import traceback

from harness.findings import Disc, Known, sig_hash

HERE = os.path.dirname(os.path.dirname(os.path.abspath(__file__)))
REPO = os.environ.get("VERIF_REPO", "/repo")
# mutant / seeded-change trials write their evidence and replays elsewhere
OUT = os.environ.get("VERIF_OUT", HERE)


class HarnessError(Exception):
    """The harness itself is wrong or missing something: exit 2, never a violation."""


class _Violation(Exception):
    pass


def _h(key) -> str:
    if not isinstance(key, (str, bytes)):
        key = json.dumps(key, sort_keys=True, default=str)
    if isinstance(key, str):
        key = key.encode("utf-8", "surrogatepass")
    return hashlib.blake2b(key, digest_size=8).hexdigest()


class Ctx:
    MAX_SAMPLES = 4

    def __init__(self, pid, tier, seed, shard=0, nshards=1, scratch=None):
        self.pid, self.tier, self.seed = pid, tier, seed
        self.shard, self.nshards = shard, nshards
        self.scratch = scratch or tempfile.mkdtemp(prefix=f"vchk_{pid}_")
        self.known = Known()
        self.evaluations = 0
        self.nontrivial = set()
        self.classes = collections.Counter()
        self.samples = []
        self.trivial_samples = []
        self.known_hits = {}  # sig -> {"count": n, "what": str, "example": ...}
        self.violations = {}  # sig -> {"what":..., "case":..., "detail":...}
        self.notes = {}
        self.inconclusive = []
        self.extra = {}
        self.t0 = time.time()
        self.budget_scale = float(os.environ.get("VERIF_BUDGET", "1"))

    # ---- budgets -------------------------------------------------------------------
    def n(self, quick: int, thorough: int) -> int:
        """Per-shard case count for the current tier."""
        v = quick if self.tier == "quick" else thorough
        return max(1, int(v * self.budget_scale))

    # ---- bookkeeping ---------------------------------------------------------------
    def case(self, key, nontrivial: bool, sample=None, classes=()):
        self.evaluations += 1
        for c in classes:
            self.classes[c] += 1
        if nontrivial:
            h = _h(key)
            if h not in self.nontrivial:
                self.nontrivial.add(h)
                if sample is not None and len(self.samples) < self.MAX_SAMPLES:
                    self.samples.append(sample)
        elif sample is not None and len(self.trivial_samples) < 1:
            self.trivial_samples.append(sample)

    def event(self, label: str, n: int = 1):
        self.classes[label] += n

    def split_known(self, discs):
        """Record discrepancies that are listed as known; return the unlisted ones."""
        unlisted = []
        for d in discs:
            e = self.known.lookup(self.pid, d.sig)
            if e is not None:
                k = self.known_hits.setdefault(
                    d.sig, {"count": 0, "what": e.get("what", d.what), "example": d.what}
                )
                k["count"] += 1
            else:
                unlisted.append(d)
        return unlisted

    def check(self, discs, case) -> list:
        """Non-Hypothesis path (enumerations): record every unlisted discrepancy (first case
        per signature) and keep going."""
        unlisted = self.split_known(discs)
        for d in unlisted:
            if d.sig not in self.violations:
                self.violations[d.sig] = {"what": d.what, "detail": d.detail, "case": case}
        return unlisted

    # ---- Hypothesis driver ---------------------------------------------------------
    def hyp(self, strategy, oracle, max_examples, case_of=None, shrink_seconds=None, label="", collect=False):
        """Search `strategy` with Hypothesis.  oracle(value) -> list[Disc] (and is expected to
        call ctx.case itself).  Known discrepancies are counted and the search continues;
        the first unlisted one becomes the shrink target (same signature only)."""
        import hypothesis
        from hypothesis import HealthCheck, Phase, given, settings

        if shrink_seconds is None:
            shrink_seconds = 45 if self.tier == "quick" else 240
        state = {"target": None, "last": None, "t_fail": None, "n": 0}
        counting = {"on": True}

        def run_one(v):
            if state["t_fail"] is not None:
                if time.time() - state["t_fail"] > shrink_seconds:
                    return  # shrink budget exhausted: let Hypothesis wind down
                counting["on"] = False
            saved = None
            if not counting["on"]:
                saved = (self.evaluations, set(self.nontrivial), collections.Counter(self.classes),
                         list(self.samples), list(self.trivial_samples))
            try:
                discs = oracle(v)
            finally:
                if saved is not None:  # shrinking replays do not count as coverage
                    (self.evaluations, self.nontrivial, self.classes, self.samples,
                     self.trivial_samples) = saved
            unl = self.split_known(discs) if counting["on"] else [
                d for d in discs if self.known.lookup(self.pid, d.sig) is None
            ]
            if not unl:
                return
            if collect:
                # collect-classify-continue: remember the first case of every unlisted signature and
                # keep searching; the caller minimises afterwards (ddmin)
                for d in unl:
                    if d.sig not in self.violations:
                        self.violations[d.sig] = {"what": d.what, "detail": d.detail,
                                                  "case": case_of(v) if case_of else v}
                return
            if state["target"] is None:
                state["target"] = unl[0].sig
                state["t_fail"] = time.time()
            hit = [d for d in unl if d.sig == state["target"]]
            if hit:
                state["last"] = (case_of(v) if case_of else v, hit[0])
                raise _Violation(hit[0].sig)

        phases = [Phase.explicit, Phase.generate, Phase.shrink]
        test = given(strategy)(run_one)
        test = settings(
            max_examples=max_examples,
            database=None,
            deadline=None,
            derandomize=False,
            report_multiple_bugs=False,
            suppress_health_check=list(HealthCheck),
            phases=phases,
            print_blob=False,
        )(test)
        test = hypothesis.seed(self.seed)(test)
        try:
            test()
        except _Violation:
            pass
        except BaseException as e:  # Flaky after the shrink budget, or a harness bug
            if state["last"] is None:
                raise HarnessError(f"{label}: {type(e).__name__}: {e}\n{traceback.format_exc()}")
        if state["last"] is not None:
            case, d = state["last"]
            if d.sig not in self.violations:
                self.violations[d.sig] = {"what": d.what, "detail": d.detail, "case": case}

    def hyp_machine(self, machine_cls, max_examples, steps, get_last, shrink_seconds=None):
        """Run a RuleBasedStateMachine.  The machine reports through self (ctx) and raises
        _Violation itself via ctx.machine_fail(...)."""
        import hypothesis
        from hypothesis import HealthCheck, settings
        from hypothesis.stateful import run_state_machine_as_test

        st = settings(
            max_examples=max_examples,
            stateful_step_count=steps,
            database=None,
            deadline=None,
            report_multiple_bugs=False,
            suppress_health_check=list(HealthCheck),
            print_blob=False,
        )
        self._mstate = {"target": None, "last": None, "t_fail": None,
                        "shrink_seconds": shrink_seconds or (45 if self.tier == "quick" else 240)}
        try:
            run_state_machine_as_test(hypothesis.seed(self.seed)(machine_cls), settings=st)
        except _Violation:
            pass
        except BaseException as e:
            if self._mstate["last"] is None:
                raise HarnessError(f"machine: {type(e).__name__}: {e}\n{traceback.format_exc()}")
        if self._mstate["last"] is not None:
            case, d = self._mstate["last"]
            if d.sig not in self.violations:
                self.violations[d.sig] = {"what": d.what, "detail": d.detail, "case": case}

    def machine_expired(self) -> bool:
        ms = self._mstate
        return ms["t_fail"] is not None and time.time() - ms["t_fail"] > ms["shrink_seconds"]

    def machine_shrinking(self) -> bool:
        return self._mstate["t_fail"] is not None

    def machine_check(self, discs, case):
        """Called by a state machine after a step.  Raises to make Hypothesis shrink."""
        ms = self._mstate
        if ms["t_fail"] is None:
            unl = self.split_known(discs)
        else:
            unl = [d for d in discs if self.known.lookup(self.pid, d.sig) is None]
        if not unl:
            return
        if ms["target"] is None:
            ms["target"] = unl[0].sig
            ms["t_fail"] = time.time()
        hit = [d for d in unl if d.sig == ms["target"]]
        if hit:
            ms["last"] = (case, hit[0])
            raise _Violation(hit[0].sig)

    # ---- results -------------------------------------------------------------------
    def result(self):
        return {
            "evaluations": self.evaluations,
            "nontrivial": sorted(self.nontrivial),
            "classes": dict(self.classes),
            "samples": self.samples,
            "trivial_samples": self.trivial_samples,
            "known_hits": self.known_hits,
            "violations": self.violations,
            "notes": self.notes,
            "inconclusive": self.inconclusive,
            "extra": self.extra,
            "wall_s": time.time() - self.t0,
        }


# ------------------------------------------------------------------------------------


def load_check(pid: str):
    sys.path.insert(0, HERE)
    import fortls

    f = os.path.realpath(fortls.__file__)
    if not f.startswith(os.path.realpath(REPO) + os.sep):
        raise HarnessError(f"fortls imported from {f}, not from {REPO}")
    return importlib.import_module(f"checks.{pid.lower()}")


def write_replay(pid, sig, what, case, seed, tier, detail=None):
    d = os.path.join(OUT, "replays", pid)
    os.makedirs(d, exist_ok=True)
    path = os.path.join(d, f"{sig_hash(sig)}.json")
    with open(path, "w") as f:
        json.dump({"property": pid, "signature": sig, "what": what, "detail": detail,
                   "seed": seed, "tier": tier, "case": case}, f, indent=1, default=str)
    return path


def regress_cases(pid):
    d = os.path.join(HERE, "regress", pid)
    if not os.path.isdir(d):
        return []
    out = []
    for fn in sorted(os.listdir(d)):
        if fn.endswith(".json"):
            with open(os.path.join(d, fn)) as f:
                out.append((fn, json.load(f)))
    return out


def shard_main(args):
    seed = int(os.environ.get("VERIF_SEED", "1") or "1")
    mod = load_check(args.id)
    ctx = Ctx(args.id, args.tier, seed * 1000 + args.shard, args.shard, args.nshards,
              scratch=args.scratch)
    res = {"harness_error": None}
    try:
        if args.shard == 0:
            # replay tier: committed regression cases first (seconds)
            for fn, rc in regress_cases(args.id):
                discs = mod.replay(ctx, rc["case"])
                ctx.event("regress_case")
                ctx.check([Disc(d.sig, f"regression {fn}: {d.what}", d.detail) for d in discs],
                          rc["case"])
        mod.run(ctx)
    except HarnessError as e:
        res["harness_error"] = str(e)
    except BaseException as e:
        res["harness_error"] = f"{type(e).__name__}: {e}\n{traceback.format_exc()}"
    res.update(ctx.result())
    with open(args.out, "w") as f:
        json.dump(res, f, default=str)
    return 0


def merge(results):
    m = {"evaluations": 0, "nontrivial": set(), "classes": collections.Counter(), "samples": [],
         "trivial_samples": [], "known_hits": {}, "violations": {}, "notes": {},
         "inconclusive": [], "extra": {}, "harness_errors": []}
    for r in results:
        if r.get("harness_error"):
            m["harness_errors"].append(r["harness_error"])
        m["evaluations"] += r.get("evaluations", 0)
        m["nontrivial"].update(r.get("nontrivial", []))
        m["classes"].update(r.get("classes", {}))
        for s in r.get("samples", []):
            if len(m["samples"]) < 5:
                m["samples"].append(s)
        for s in r.get("trivial_samples", []):
            if len(m["trivial_samples"]) < 1:
                m["trivial_samples"].append(s)
        for sig, k in r.get("known_hits", {}).items():
            t = m["known_hits"].setdefault(sig, {"count": 0, "what": k["what"],
                                                "example": k.get("example")})
            t["count"] += k["count"]
        for sig, v in r.get("violations", {}).items():
            m["violations"].setdefault(sig, v)
        m["notes"].update(r.get("notes", {}))
        m["inconclusive"] += r.get("inconclusive", [])
        for k, v in r.get("extra", {}).items():
            if isinstance(v, (int, float)) and isinstance(m["extra"].get(k, 0), (int, float)):
                m["extra"][k] = m["extra"].get(k, 0) + v
            else:
                m["extra"].setdefault(k, v)
    return m


def write_evidence(mod, pid, tier, seed, m, wall, nshards):
    os.makedirs(os.path.join(OUT, "evidence"), exist_ok=True)
    samples = m["samples"] or m["trivial_samples"]
    cov = {
        "evaluations": m["evaluations"],
        "distinct_nontrivial": len(m["nontrivial"]),
        "rule": mod.RULE,
        "samples": samples,
        "classes": dict(sorted(m["classes"].items(), key=lambda kv: -kv[1])[:60]),
        "known_findings_hit": {sig: {"count": k["count"], "what": k["what"]}
                               for sig, k in m["known_hits"].items()},
        "excluded_cases": sum(k["count"] for k in m["known_hits"].values()),
        "shards": nshards,
        "inconclusive": m["inconclusive"],
    }
    cov.update(m["extra"])
    cov.update(m["notes"])
    ev = {
        "property_id": pid,
        "tier": tier,
        "seed": seed,
        "level": mod.LEVEL,
        "coverage": cov,
        "assumptions": list(getattr(mod, "ASSUMPTIONS", [])),
        "wall_s": round(wall, 2),
        "violations": len(m["violations"]),
    }
    path = os.path.join(OUT, "evidence", f"{pid}.json")
    with open(path, "w") as f:
        json.dump(ev, f, indent=1, default=str)
    return path


def main(argv=None):
    ap = argparse.ArgumentParser()
    ap.add_argument("id")
    ap.add_argument("--tier", default=os.environ.get("VERIF_TIER") or "quick",
                    choices=["quick", "thorough"])
    ap.add_argument("--replay")
    ap.add_argument("--shard", type=int)
    ap.add_argument("--nshards", type=int)
    ap.add_argument("--shards", type=int, help="override the number of shards")
    ap.add_argument("--out")
    ap.add_argument("--scratch")
    args = ap.parse_args(argv)

    if args.id == "selftest":
        from harness import selftest

        return selftest.main(args.tier)

    args.id = args.id.upper()
    if args.shard is not None:
        return shard_main(args)

    seed = int(os.environ.get("VERIF_SEED", "1") or "1")
    t0 = time.time()
    try:
        mod = load_check(args.id)
    except HarnessError as e:
        print(f"HARNESS-ERROR {e}")
        return 2

    if args.replay:
        with open(args.replay) as f:
            rc = json.load(f)
        ctx = Ctx(args.id, args.tier, seed)
        try:
            discs = mod.replay(ctx, rc["case"])
        except BaseException as e:
            print(f"HARNESS-ERROR replay: {type(e).__name__}: {e}")
            traceback.print_exc()
            return 2
        finally:
            shutil.rmtree(ctx.scratch, ignore_errors=True)
        unl = ctx.split_known(discs)
        for sig, k in ctx.known_hits.items():
            print(f"KNOWN-FINDING: property={args.id} {k['what']} [{sig}]")
        for d in unl:
            print(f"  discrepancy: {d.sig} :: {d.what}")
        if unl:
            print(f"VIOLATION property={args.id} replay={os.path.abspath(args.replay)}")
            return 1
        print(f"OK property={args.id} replay held ({len(discs)} known discrepancies)")
        return 0

    nshards = args.shards or mod.SHARDS.get(args.tier, 1)
    base = "/dev/shm" if os.path.isdir("/dev/shm") and os.access("/dev/shm", os.W_OK) else None
    scratch = tempfile.mkdtemp(prefix=f"vchk_{args.id}_", dir=base)
    procs = []
    limit = float(os.environ.get("VERIF_SHARD_TIMEOUT", "1500" if args.tier == "quick" else "14400"))
    try:
        for k in range(nshards):
            sd = os.path.join(scratch, f"s{k}")
            os.makedirs(sd)
            out = os.path.join(scratch, f"r{k}.json")
            cmd = [sys.executable, "-m", "harness.runner", args.id, "--tier", args.tier, "--shard",
                   str(k), "--nshards", str(nshards), "--out", out, "--scratch", sd]
            env = dict(os.environ)
            env["TMPDIR"] = sd
            log = open(os.path.join(scratch, f"log{k}.txt"), "w")
            procs.append((k, subprocess.Popen(cmd, cwd=HERE, env=env, stdout=log,
                                              stderr=subprocess.STDOUT), out, log))
        results = []
        for k, p, out, log in procs:
            remaining = max(1.0, limit - (time.time() - t0))
            try:
                p.wait(timeout=remaining)
            except subprocess.TimeoutExpired:
                p.kill()
                p.wait()
                results.append({"inconclusive": [f"shard {k} stopped at the wall-clock budget"]})
                continue
            finally:
                log.close()
            if os.path.exists(out):
                with open(out) as f:
                    results.append(json.load(f))
            else:
                with open(os.path.join(scratch, f"log{k}.txt")) as f:
                    tail = f.read()[-3000:]
                results.append({"harness_error": f"shard {k} died (rc={p.returncode}): {tail}"})
        m = merge(results)
    finally:
        for _, p, _, _ in procs:
            if p.poll() is None:
                p.kill()
        shutil.rmtree(scratch, ignore_errors=True)

    wall = time.time() - t0
    # harness errors: never a violation
    if m["harness_errors"]:
        for e in m["harness_errors"][:3]:
            print(f"HARNESS-ERROR property={args.id}: {e}")
        try:
            write_evidence(mod, args.id, args.tier, seed, m, wall, nshards)
        except Exception:
            pass
        return 2
    write_evidence(mod, args.id, args.tier, seed, m, wall, nshards)
    for sig, k in sorted(m["known_hits"].items()):
        print(f"KNOWN-FINDING: property={args.id} {k['what']} [{sig}] x{k['count']}")
    rc = 0
    for sig, v in sorted(m["violations"].items()):
        path = write_replay(args.id, sig, v["what"], v["case"], seed, args.tier, v.get("detail"))
        print(f"  discrepancy: {sig} :: {v['what']}")
        print(f"VIOLATION property={args.id} replay={path}")
        rc = 1
    for inc in m["inconclusive"]:
        print(f"INCONCLUSIVE property={args.id}: {inc}")
    print(f"{'OK' if rc == 0 else 'FAIL'} property={args.id} tier={args.tier} seed={seed} "
          f"evaluations={m['evaluations']} distinct_nontrivial={len(m['nontrivial'])} "
          f"known_hits={sum(k['count'] for k in m['known_hits'].values())} wall={wall:.1f}s")
    return rc


if __name__ == "__main__":
    sys.exit(main())
