"""Reference C preprocessor (conditionals, #if expression evaluator, macro table, single-level
expansion), written from the C standard, independent of fortls.  It is itself validated against
GNU cpp by harness/selftest.py and by the C08 check (a disagreement is a harness error).

Scope (the domain C08 generates): #if/#ifdef/#ifndef/#elif/#else/#endif, #define/#undef of
object-like and function-like macros (with `\\` line continuation), integer expressions over
defined(X) / defined X / ! / && / || / comparisons / + - * / % / parentheses / identifiers.
"""
from __future__ import annotations

import re
from dataclasses import dataclass, field

DIRECTIVE = re.compile(r"^[ \t]*#[ \t]*([A-Za-z_]\w*)?(.*)$", re.S)
IDENT = re.compile(r"[A-Za-z_]\w*")
TOKEN = re.compile(r"\s*(?:(\d+)[uUlL]*|([A-Za-z_]\w*)|(\|\||&&|==|!=|<=|>=|<<|>>|[-+*/%()!<>~&|^?:,]))")


class PPDomainError(Exception):
    """The input is outside the domain the reference implements (invalid C, division by zero...)."""


@dataclass
class Macro:
    name: str
    params: list | None  # None = object-like
    body: str


def tokenize(expr: str):
    out, i = [], 0
    expr = expr.strip()
    while i < len(expr):
        m = TOKEN.match(expr, i)
        if not m or m.end() == i:
            if expr[i:].strip() == "":
                break
            raise PPDomainError(f"cannot tokenize {expr[i:]!r}")
        if m.group(1) is not None:
            out.append(("int", int(m.group(1))))
        elif m.group(2) is not None:
            out.append(("id", m.group(2)))
        else:
            out.append(("op", m.group(3)))
        i = m.end()
    return out


class ExprEval:
    """Recursive-descent evaluator with C precedence.  Identifiers are macro-expanded first
    (object-like, recursively), remaining identifiers are 0."""

    def __init__(self, table: dict):
        self.table = table

    def expand_tokens(self, toks, depth=0, hide=()):
        if depth > 20:
            raise PPDomainError("macro recursion")
        out, i = [], 0
        while i < len(toks):
            k, v = toks[i]
            if k == "id" and v == "defined":
                # defined X | defined ( X ) : operand is not expanded
                if i + 1 < len(toks) and toks[i + 1][0] == "id":
                    out.append(("int", 1 if toks[i + 1][1] in self.table else 0))
                    i += 2
                    continue
                if (i + 3 < len(toks) and toks[i + 1] == ("op", "(") and toks[i + 2][0] == "id"
                        and toks[i + 3] == ("op", ")")):
                    out.append(("int", 1 if toks[i + 2][1] in self.table else 0))
                    i += 4
                    continue
                raise PPDomainError("malformed defined")
            if k == "id" and v in self.table and v not in hide:
                m = self.table[v]
                if m.params is not None:
                    raise PPDomainError("function-like macro in #if")
                body = tokenize(m.body)
                if not body:
                    raise PPDomainError("empty macro in arithmetic")
                out += [("op", "(")] + self.expand_tokens(body, depth + 1, hide + (v,)) + [("op", ")")]
            elif k == "id":
                out.append(("int", 0))
            else:
                out.append((k, v))
            i += 1
        return out

    def eval(self, expr: str) -> int:
        self.toks = self.expand_tokens(tokenize(expr))
        if not self.toks:
            raise PPDomainError("#if with no expression")
        self.i = 0
        v = self.p_or()
        if self.i != len(self.toks):
            raise PPDomainError(f"trailing tokens in {expr!r}")
        return v

    def peek(self):
        return self.toks[self.i] if self.i < len(self.toks) else (None, None)

    def take(self, op):
        if self.peek() == ("op", op):
            self.i += 1
            return True
        return False

    def p_or(self):
        v = self.p_and()
        while self.take("||"):
            r = self.p_and()
            v = 1 if (v or r) else 0
        return v

    def p_and(self):
        v = self.p_eq()
        while self.take("&&"):
            r = self.p_eq()
            v = 1 if (v and r) else 0
        return v

    def p_eq(self):
        v = self.p_rel()
        while True:
            if self.take("=="):
                v = 1 if v == self.p_rel() else 0
            elif self.take("!="):
                v = 1 if v != self.p_rel() else 0
            else:
                return v

    def p_rel(self):
        v = self.p_add()
        while True:
            if self.take("<="):
                v = 1 if v <= self.p_add() else 0
            elif self.take(">="):
                v = 1 if v >= self.p_add() else 0
            elif self.take("<"):
                v = 1 if v < self.p_add() else 0
            elif self.take(">"):
                v = 1 if v > self.p_add() else 0
            else:
                return v

    def p_add(self):
        v = self.p_mul()
        while True:
            if self.take("+"):
                v = v + self.p_mul()
            elif self.take("-"):
                v = v - self.p_mul()
            else:
                return v

    def p_mul(self):
        v = self.p_unary()
        while True:
            if self.take("*"):
                v = v * self.p_unary()
            elif self.take("/"):
                r = self.p_unary()
                if r == 0:
                    raise PPDomainError("division by zero")
                q = abs(v) // abs(r)
                v = q if (v >= 0) == (r >= 0) else -q
            elif self.take("%"):
                r = self.p_unary()
                if r == 0:
                    raise PPDomainError("division by zero")
                m = abs(v) % abs(r)
                v = m if v >= 0 else -m
            else:
                return v

    def p_unary(self):
        if self.take("!"):
            return 0 if self.p_unary() else 1
        if self.take("-"):
            return -self.p_unary()
        if self.take("+"):
            return self.p_unary()
        if self.take("("):
            v = self.p_or()
            if not self.take(")"):
                raise PPDomainError("missing )")
            return v
        k, v = self.peek()
        if k == "int":
            self.i += 1
            return v
        raise PPDomainError(f"unexpected token {self.peek()!r}")


@dataclass
class Result:
    kinds: list = field(default_factory=list)  # per line: "code" | "directive" | "cont"
    active: list = field(default_factory=list)  # per line: bool (for code lines: is it compiled)
    expanded: list = field(default_factory=list)  # per line: expanded text for active code lines, else None
    table: dict = field(default_factory=dict)
    evals: list = field(default_factory=list)  # (line index, expression, value)
    defines_active: list = field(default_factory=list)  # line indices of executed #define/#undef


def parse_define(rest: str) -> Macro:
    m = re.match(r"[ \t]*([A-Za-z_]\w*)(\(([^)]*)\))?(.*)$", rest, re.S)
    if not m:
        raise PPDomainError(f"bad #define {rest!r}")
    name, params, body = m.group(1), None, m.group(4)
    if m.group(2) is not None:
        ps = m.group(3).strip()
        params = [p.strip() for p in ps.split(",")] if ps else []
    return Macro(name, params, body.strip())


def expand_line(line: str, table: dict) -> str:
    """Single-level expansion of macro uses in a code line (outside strings and comments is the
    generator's responsibility; arguments are simple tokens)."""
    out, i = "", 0
    while i < len(line):
        m = IDENT.match(line, i)
        if not m:
            out += line[i]
            i += 1
            continue
        if i > 0 and (line[i - 1].isalnum() or line[i - 1] == "_"):
            # inside a number/identifier tail such as 1e5 or 2x: not an identifier start
            out += m.group(0)
            i = m.end()
            continue
        name = m.group(0)
        mac = table.get(name)
        if mac is None:
            out += name
            i = m.end()
            continue
        if mac.params is None:
            out += mac.body
            i = m.end()
            continue
        j = m.end()
        while j < len(line) and line[j] in " \t":
            j += 1
        if j >= len(line) or line[j] != "(":
            out += name
            i = m.end()
            continue
        depth, k, args, cur = 0, j, [], ""
        while k < len(line):
            c = line[k]
            if c == "(":
                depth += 1
                if depth > 1:
                    cur += c
            elif c == ")":
                depth -= 1
                if depth == 0:
                    break
                cur += c
            elif c == "," and depth == 1:
                args.append(cur)
                cur = ""
            else:
                cur += c
            k += 1
        if depth != 0:
            raise PPDomainError("unterminated macro call")
        args.append(cur)
        if len(mac.params) == 0:
            args = []
        if len(args) != len(mac.params):
            raise PPDomainError("macro arity")
        body = mac.body

        def sub(mm, args=args, params=mac.params):
            w = mm.group(0)
            return args[params.index(w)].strip() if w in params else w

        out += IDENT.sub(sub, body)
        i = k + 1
    return out


class PP:
    """Incremental reference preprocessor: feed() one physical line at a time."""

    def __init__(self, defs=None):
        self.table = {k: Macro(k, None, v) for k, v in (defs or {}).items()}
        self.res = Result()
        self.stack = []  # [parent_active, taken, active, seen_else]
        self.cont = False
        self.pending = None
        self.idx = -1

    def cur_active(self) -> bool:
        return all(s[2] for s in self.stack)

    def feed(self, line: str):
        res, stack, table = self.res, self.stack, self.table
        self.idx += 1
        idx = self.idx
        cur_active = self.cur_active()
        if self.cont:
            res.kinds.append("cont")
            res.active.append(False)
            res.expanded.append(None)
            piece = line.rstrip()
            self.cont = piece.endswith("\\")
            if self.cont:
                piece = piece[:-1]
            if self.pending is not None:
                self.pending.body = (self.pending.body + " " + piece.strip()).strip()
            return
        m = DIRECTIVE.match(line)
        if not m:
            res.kinds.append("code")
            res.active.append(cur_active)
            res.expanded.append(expand_line(line, table) if cur_active else None)
            return
        res.kinds.append("directive")
        res.active.append(False)
        res.expanded.append(None)
        d, rest = (m.group(1) or ""), m.group(2)
        if d in ("if", "ifdef", "ifndef"):
            if not cur_active:
                stack.append([False, True, False, False])
                return
            if d == "if":
                v = ExprEval(table).eval(rest)
                res.evals.append((idx, rest.strip(), v))
                t = v != 0
            else:
                nm = IDENT.match(rest.strip())
                if not nm:
                    raise PPDomainError("bad #ifdef")
                t = (nm.group(0) in table) == (d == "ifdef")
            stack.append([True, t, t, False])
        elif d == "elif":
            if not stack or stack[-1][3]:
                raise PPDomainError("#elif without #if")
            s = stack[-1]
            if not s[0] or s[1]:
                s[2] = False
            else:
                v = ExprEval(table).eval(rest)
                res.evals.append((idx, rest.strip(), v))
                s[2] = v != 0
                s[1] = s[2]
        elif d == "else":
            if not stack or stack[-1][3]:
                raise PPDomainError("#else without #if")
            s = stack[-1]
            s[2] = s[0] and not s[1]
            s[1] = True
            s[3] = True
        elif d == "endif":
            if not stack:
                raise PPDomainError("#endif without #if")
            stack.pop()
        elif d == "define":
            body_line = rest.rstrip()
            self.cont = body_line.endswith("\\")
            if self.cont:
                body_line = body_line[:-1]
            mac = parse_define(body_line)
            if cur_active:
                if mac.name in table and (table[mac.name].params, table[mac.name].body) != (mac.params, mac.body):
                    raise PPDomainError("redefinition")
                table[mac.name] = mac
                res.defines_active.append(idx)
                self.pending = mac if self.cont else None
            else:
                self.pending = None
        elif d == "undef":
            if cur_active:
                nm = IDENT.match(rest.strip())
                if nm:
                    table.pop(nm.group(0), None)
                res.defines_active.append(idx)

    def finish(self) -> Result:
        if self.stack:
            raise PPDomainError("unterminated conditional")
        self.res.table = self.table
        return self.res


def run(lines, defs=None) -> Result:
    """defs: name -> body string (object-like) initially defined."""
    pp = PP(defs)
    for line in lines:
        pp.feed(line)
    return pp.finish()
